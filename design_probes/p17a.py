import typing, typing_extensions
typing.TypeIs = typing_extensions.TypeIs
from rogw.tranp.implements.transpiler.evaluator import LiteralEvaluator
from rogw.tranp.errors import Errors

_ev = object.__new__(LiteralEvaluator)

def _py(l, op, r):
    if op == 0: return l + r
    if op == 1: return l - r
    if op == 2: return l * r
    if op == 3: return l % r
    if op == 4: return l | r
    if op == 5: return l ^ r
    if op == 6: return l & r
    if op == 7: return l << r
    if op == 8: return l >> r
    return l / r

_OPS = ['+', '-', '*', '%', '|', '^', '&', '<<', '>>', '/']

def int_int(l: int, opi: int, r: int) -> bool:
    """
    pre: 0 <= opi <= 9
    pre: -1000 <= r <= 64
    post: _
    """
    op = _OPS[opi]
    try:
        want = _py(l, opi, r)
    except (ZeroDivisionError, ValueError, OverflowError):
        return True
    try:
        got = _ev._op_bin_each(None, [l, op, r])
    except Errors.Error:
        return True
    return type(got) is type(want) and got == want
