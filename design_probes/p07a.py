import lark
from lark.indenter import PythonIndenter
_p = lark.Lark(open('/repo/data/grammar.lark').read(), start='file_input', parser='lalr', postlex=PythonIndenter(), propagate_positions=True)

def parse_any(s: str) -> bool:
    """
    pre: len(s) <= 3
    pre: all(c in "a1+\n (" for c in s)
    post: _
    """
    try:
        _p.parse(s + '\n')
    except lark.exceptions.LarkError:
        pass
    return True
