import rogw.tranp.data.meta.header as H
from rogw.tranp.data.meta.header import MetaHeader

class _Json:
    def __init__(self, text): self.text = text; self.seen = None
    def dumps(self, obj, **kw): return self.text
    def loads(self, s):
        self.seen = s
        return {'module': {'hash': 'h', 'path': 'p'}, 'transpiler': {}, 'version': '1'}

def hdr(j: str, rest: str) -> bool:
    """
    pre: 2 <= len(j) <= 5 and len(rest) <= 3
    pre: j[0] == '{' and j[-1] == '}' and all(c in 'a}{" @' for c in j) and all(c in 'a}\\n@' for c in rest)
    post: _
    """
    stub = _Json(j)
    H.json = stub
    head = MetaHeader({'hash': 'h', 'path': 'p'}, {}, '1')
    content = '// ' + head.to_header_str() + '\n' + rest
    MetaHeader.try_from_content(content)
    return stub.seen is not None and stub.seen.strip() == j
