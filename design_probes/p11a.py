from rogw.tranp.implements.syntax.tranp.rule import Rules
class _P(property):
    __name__ = 'keywords'
Rules.keywords = _P(Rules.keywords.fget)
import sys
sys.path.insert(0, '/repo')
from data.syntax.py_rules import py_rules
from rogw.tranp.implements.syntax.tranp.syntax import SyntaxParser
from rogw.tranp.errors import Errors
_rules = py_rules()

def robust(s: str) -> bool:
    """
    pre: 1 <= len(s) <= 3
    pre: all(c in "a1+*(=" for c in s)
    post: _
    """
    try:
        SyntaxParser(_rules).parse(s, 'entry')
    except Errors.Syntax:
        pass
    return True
