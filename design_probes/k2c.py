import z3, time
a, b = z3.Ints('a b')
RNE = z3.RNE(); F = z3.Float64()
impl = z3.fpDiv(RNE, z3.fpToFP(RNE, z3.ToReal(a), F), z3.fpToFP(RNE, z3.ToReal(b), F))
spec = z3.fpToFP(RNE, z3.ToReal(a) / z3.ToReal(b), F)
for lo, hi, bl, bh in [(2**53, 2**53 + 64, 1, 16), (2**53, 2**54, 1, 1024), (-2**63, 2**63, 1, 2**63)]:
    s = z3.Solver(); s.set('timeout', 60000)
    s.add(a >= lo, a < hi, b >= bl, b < bh, z3.Not(z3.fpEQ(impl, spec)))
    t = time.time(); r = s.check(); print((lo, hi, bl, bh), r, round(time.time() - t, 1), s.model() if str(r) == 'sat' else '')
