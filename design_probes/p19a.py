from typing import List, Tuple
from rogw.tranp.lang.di import DI

class S0: pass
class S1: pass
class I0(S0): pass
class I0b(S0): pass
class I1(S1): pass
SYMS = [S0, S1]
FACS = [[I0, I0b], [I1, I1]]

def run(ops: List[Tuple[int, int, int]]) -> bool:
    """
    pre: len(ops) <= 3
    pre: all(0 <= o[0] <= 4 and 0 <= o[1] <= 1 and 0 <= o[2] <= 1 for o in ops)
    post: _
    """
    di = DI()
    model = {}   # sym -> [factory, instance or None]
    for op, s, f in ops:
        sym = SYMS[s]; fac = FACS[s][f]
        if op == 0:
            try:
                di.bind(sym, fac); ok = True
            except ValueError:
                ok = False
            if ok != (s not in model): return False
            if ok: model[s] = [fac, None]
        elif op == 1:
            di.unbind(sym); model.pop(s, None)
        elif op == 2:
            di.rebind(sym, fac); model[s] = [fac, None]
        elif op == 3:
            try:
                inst = di.resolve(sym); ok = True
            except ValueError:
                ok = False
            if ok != (s in model): return False
            if ok:
                if type(inst) is not model[s][0]: return False
                if model[s][1] is not None and model[s][1] is not inst: return False
                model[s][1] = inst
        else:
            if di.can_resolve(sym) != (s in model): return False
    return True
