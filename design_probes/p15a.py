import lark, json
from rogw.tranp.implements.syntax.lark.entry import EntryOfLark, Serialization

def rt(n: int, v0: str, l0: int, c0: int, el0: int, ec0: int, has_none: bool, tl: int, tc: int) -> bool:
    """
    pre: 0 <= n <= 2 and len(v0) <= 2
    pre: l0 >= 0 and c0 >= 0 and el0 >= 0 and ec0 >= 0 and tl >= 0 and tc >= 0
    post: _
    """
    kids = []
    for i in range(n):
        t = lark.Token('NAME', v0)
        t.line, t.column, t.end_line, t.end_column = l0, c0, el0, ec0
        kids.append(t)
    if has_none:
        kids.append(None)
    m = lark.tree.Meta(); m.line, m.column, m.end_line, m.end_column, m.empty = tl, tc, el0, ec0, False
    tree = lark.Tree('root', kids, m)
    d = Serialization.dumps(tree)
    back = Serialization.loads(json.loads(json.dumps(d)))
    a, b = EntryOfLark(tree), EntryOfLark(back)
    if a.source_map != b.source_map or a.name != b.name or len(a.children) != len(b.children):
        return False
    for x, y in zip(a.children, b.children):
        if (x.name, x.value, x.is_empty, x.source_map) != (y.name, y.value, y.is_empty, y.source_map):
            return False
    return True
