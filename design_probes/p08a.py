from rogw.tranp.dsn.dsn import DSN

def _ident(s: str) -> bool:
    return 1 <= len(s) <= 2 and all(c in 'ab_' for c in s)

def rel(m: str, a: str, b: str) -> bool:
    """
    pre: _ident(m) and _ident(a) and _ident(b)
    post: _
    """
    origin = DSN.join(m, a, b)
    return DSN.relativefy(origin, m) == DSN.join(a, b) and DSN.relativefy(origin, DSN.join(m, a)) == b
