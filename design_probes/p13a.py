from rogw.tranp.implements.syntax.tranp.tokenizer import Lexer
from rogw.tranp.implements.syntax.tranp.token import TokenDefinition

_lexer = Lexer(TokenDefinition())

def check_lossless(source: str) -> bool:
    """
    pre: len(source) <= 4
    pre: all(c in "a1. \n#\"=-(" for c in source)
    pre: not source.endswith("-")
    post: _
    """
    toks = _lexer.parse_impl(source)
    return ''.join(t.string for t in toks) == source

def check_spans(source: str) -> bool:
    """
    pre: len(source) <= 4
    pre: all(c in "a1. \n#\"=-(" for c in source)
    pre: not source.endswith("-")
    post: _
    """
    toks = _lexer.parse_impl(source)
    lines = source.split('\n')
    for t in toks:
        sm = t.source_map
        if sm.begin_line == sm.end_line:
            if lines[sm.begin_line][sm.begin_column:sm.end_column] != t.string:
                return False
    return True
