from rogw.tranp.syntax.ast.entry import EntryOfDict
from rogw.tranp.syntax.ast.finder import ASTFinder

_TAGS = ['a', 'b']

def _tag(t: int) -> str:
    return 'a' if t == 0 else 'b'

def _mk(n0: int, t0: int, t1: int, t2: int, g0: int, u0: int, u1: int):
    # root 'r' with n0 (0..3) children tagged t0,t1,t2; first child has g0 (0..2) grandchildren u0,u1
    kids = []
    ts = [t0, t1, t2]
    for i in range(n0):
        if i == 0 and g0 > 0:
            gk = [{'name': _tag(u), 'value': 'v'} for u in [u0, u1][:g0]]
            kids.append({'name': _tag(ts[i]), 'children': gk})
        else:
            kids.append({'name': _tag(ts[i]), 'value': 'v'})
    return {'name': 'r', 'children': kids}

def bij(n0: int, t0: int, t1: int, t2: int, g0: int, u0: int, u1: int) -> bool:
    """
    pre: 0 <= n0 <= 3 and 0 <= g0 <= 2
    pre: 0 <= t0 <= 1 and 0 <= t1 <= 1 and 0 <= t2 <= 1 and 0 <= u0 <= 1 and 0 <= u1 <= 1
    post: _
    """
    d = _mk(n0, t0, t1, t2, g0, u0, u1)
    root = EntryOfDict(d)
    f = ASTFinder()
    paths = f.full_pathfy(root)
    total = 1 + n0 + (g0 if n0 > 0 else 0)
    if len(paths) != total:
        return False
    for p, e in paths.items():
        if f.pluck(root, p).source is not e.source:
            return False
    return True
