from rogw.tranp.view.helper.block import BlockParser

def _balanced(text: str) -> bool:
    # independent reference: brackets balanced, no quotes
    stack = []
    pairs = {'(': ')', '[': ']', '{': '}', '<': '>'}
    for ch in text:
        if ch in pairs:
            stack.append(pairs[ch])
        elif ch in ')]}>':
            if not stack or stack.pop() != ch:
                return False
    return len(stack) == 0

def _ref_split(text: str, d: str):
    out = []
    depth = 0
    cur = ''
    for i, ch in enumerate(text):
        if ch in '([{<':
            depth += 1
        elif ch in ')]}>':
            depth -= 1
        if ch == d and depth == 0 and i + 1 < len(text):
            out.append(cur.strip(' '))
            cur = ''
        else:
            cur += ch
    if cur != '' :
        out.append(cur.strip(' '))
    return out

def check_split(text: str) -> bool:
    """
    pre: len(text) <= 5
    pre: all(c in 'a,()[] ' for c in text)
    pre: _balanced(text)
    post: _
    """
    return BlockParser.break_separator(text, ',') == _ref_split(text, ',')
