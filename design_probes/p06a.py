from rogw.tranp.data.meta.header import MetaHeader

def hdr(h: str, p: str, rest: str) -> bool:
    """
    pre: len(h) <= 2 and len(p) <= 2 and len(rest) <= 2
    pre: all(c in 'a}"\\\\: ' for c in h + p + rest)
    post: _
    """
    head = MetaHeader({'hash': h, 'path': p}, {'version': '1', 'module': 'm'}, '1.0')
    content = '// ' + head.to_header_str() + '\n' + rest
    back = MetaHeader.try_from_content(content)
    return back is not None and back.module_meta == head.module_meta and back.transpiler_meta == head.transpiler_meta and back.app_version == head.app_version
