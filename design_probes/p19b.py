from rogw.tranp.lang.di import DI

class S0: pass
class S1: pass
class I0(S0): pass
class I0b(S0): pass
class I1(S1): pass
class I1b(S1): pass

def _step(di, model, op, s, f) -> bool:
    sym = S0 if s == 0 else S1
    fac = (I0 if f == 0 else I0b) if s == 0 else (I1 if f == 0 else I1b)
    if op == 0:
        try:
            di.bind(sym, fac); ok = True
        except ValueError:
            ok = False
        if ok != (s not in model): return False
        if ok: model[s] = [fac, None]
    elif op == 1:
        di.unbind(sym); model.pop(s, None)
    elif op == 2:
        di.rebind(sym, fac); model[s] = [fac, None]
    elif op == 3:
        try:
            inst = di.resolve(sym); ok = True
        except ValueError:
            ok = False
        if ok != (s in model): return False
        if ok:
            if type(inst) is not model[s][0]: return False
            if model[s][1] is not None and model[s][1] is not inst: return False
            model[s][1] = inst
    else:
        if di.can_resolve(sym) != (s in model): return False
    return True

def run(o1: int, s1: int, f1: int, o2: int, s2: int, f2: int, o3: int, s3: int, f3: int) -> bool:
    """
    pre: 0 <= o1 <= 4 and 0 <= s1 <= 1 and 0 <= f1 <= 1
    pre: 0 <= o2 <= 4 and 0 <= s2 <= 1 and 0 <= f2 <= 1
    pre: 0 <= o3 <= 4 and 0 <= s3 <= 1 and 0 <= f3 <= 1
    post: _
    """
    di = DI()
    model = {}
    return _step(di, model, o1, s1, f1) and _step(di, model, o2, s2, f2) and _step(di, model, o3, s3, f3)
