from rogw.tranp.implements.syntax.tranp.rule import Rules
class _P(property):
    __name__ = 'keywords'
Rules.keywords = _P(Rules.keywords.fget)
import sys
sys.path.insert(0, '/repo')
from data.syntax.py_rules import py_rules
from rogw.tranp.implements.syntax.tranp.syntax import SyntaxParser
from rogw.tranp.implements.syntax.tranp.tokenizer import Tokenizer, ITokenizer
from rogw.tranp.implements.syntax.tranp.token import Token
from rogw.tranp.errors import Errors
from crosshair import realize
from crosshair.tracers import NoTracing
_rules = py_rules()
_rules.keywords

class _Tok(ITokenizer):
    def __init__(self): self.inner = Tokenizer()
    def parse(self, source):
        toks = self.inner.parse(source)
        return [Token(t.type, realize(t.string), Token.SourceMap(*[realize(x) for x in t.source_map])) for t in toks]

def robust(s: str) -> bool:
    """
    pre: 1 <= len(s) <= 3
    pre: all(c in "a1+*(=" for c in s)
    post: _
    """
    try:
        toks = _Tok().parse(s)
        with NoTracing():
            SyntaxParser(_rules, _Fixed(toks)).parse("", "entry")
    except Errors.Syntax:
        pass
    return True

class _Fixed(ITokenizer):
    def __init__(self, toks): self.toks = toks
    def parse(self, source): return self.toks
