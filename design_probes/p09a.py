import lark
from rogw.tranp.implements.syntax.lark.entry import EntryOfLark
from rogw.tranp.lang.di import DI
from rogw.tranp.lang.locator import Invoker, Locator
from rogw.tranp.module.types import ModulePath
from rogw.tranp.providers.module import module_path_dummy
from rogw.tranp.providers.syntax.resolver import symbol_mapping
from rogw.tranp.syntax.ast.entry import Entry
from rogw.tranp.syntax.ast.resolver import SymbolMapping
from rogw.tranp.syntax.ast.query import Query
from rogw.tranp.syntax.node.node import Node
from rogw.tranp.syntax.node.query import Nodes
from rogw.tranp.syntax.node.resolver import NodeResolver
from rogw.tranp.semantics.procedure import Procedure

_MAPPING = symbol_mapping()
def _nodes(tree):
    di = DI()
    di.bind(Locator, lambda: di)
    di.bind(Invoker, lambda: di.invoke)
    di.bind(Query[Node], Nodes)
    di.bind(NodeResolver, NodeResolver)
    di.bind(ModulePath, module_path_dummy)
    di.bind(SymbolMapping, lambda: _MAPPING)
    di.bind(Entry, lambda: EntryOfLark(tree))
    return di.resolve(Query[Node])

def _num(v): return lark.Tree('number', [lark.Token('DEC_NUMBER', v)])
def _var(v): return lark.Tree('var', [lark.Tree('name', [lark.Token('NAME', v)])])

def events(n: int, tern: bool) -> bool:
    """
    pre: 2 <= n <= 4
    post: _
    """
    ops = []
    for i in range(n):
        if i: ops.append(lark.Token('PLUS', '+'))
        ops.append(_num(str(i)))
    expr = lark.Tree('sum', ops)
    if tern:
        expr = lark.Tree('ternary_test', [expr, _var('c'), _num('9')])
    tree = lark.Tree('file_input', [expr])
    q = _nodes(tree)
    root = q.by('file_input')
    seen = []
    p = Procedure[object]()
    def fb(node, **kw):
        for k in node.prop_keys():
            got = kw[k]; want = getattr(node, k)
            if isinstance(want, list):
                if len(got) != len(want) or any(g is not w and g != w for g, w in zip(got, want)): seen.append((node, k))
            elif got != want: seen.append((node, k))
        if set(kw) != set(node.prop_keys()): seen.append((node, 'keys'))
        return node
    p.on('on_fallback', fb)
    res = p.exec(root)
    return res == root and not seen
