import sys, re, ast
sys.path.insert(0, '/tmp/probe')
import z3
from tp import transpile

# --- tiny C++ expression parser (precedence climbing) -> z3
CPP_PREC = {'||':1,'&&':2,'|':3,'^':4,'&':5,'==':6,'!=':6,'<':7,'>':7,'<=':7,'>=':7,'<<':8,'>>':8,'+':9,'-':9,'*':10,'/':10,'%':10}
TOK = re.compile(r'\s*(\d+|[A-Za-z_]\w*|\|\||&&|==|!=|<=|>=|<<|>>|[-+*/%&|^!~<>()?:])')
def toks(s):
    out=[]; i=0
    while i < len(s):
        m = TOK.match(s, i)
        if not m: raise ValueError(s[i:])
        out.append(m.group(1)); i = m.end()
    return out
class P:
    def __init__(s, ts, env): s.ts=ts; s.i=0; s.env=env
    def peek(s): return s.ts[s.i] if s.i < len(s.ts) else None
    def eat(s, t=None):
        x = s.ts[s.i]; assert t is None or x == t, (x, t); s.i += 1; return x
    def ternary(s):
        c = s.binary(1)
        if s.peek() == '?':
            s.eat(); a = s.ternary(); s.eat(':'); b = s.ternary()
            a, b = unify(a, b)
            return z3.If(tobool(c), a, b)
        return c
    def binary(s, minp):
        l = s.unary()
        while s.peek() in CPP_PREC and CPP_PREC[s.peek()] >= minp:
            op = s.eat(); r = s.binary(CPP_PREC[op] + 1)
            l = cpp_bin(op, l, r)
        return l
    def unary(s):
        t = s.peek()
        if t == '!': s.eat(); return z3.Not(tobool(s.unary()))
        if t == '-': s.eat(); return -toint(s.unary())
        if t == '+': s.eat(); return toint(s.unary())
        if t == '~': s.eat(); return -toint(s.unary()) - 1
        if t == '(':
            s.eat(); e = s.ternary(); s.eat(')'); return e
        s.eat()
        if t.isdigit(): return z3.IntVal(int(t))
        if t == 'true': return z3.BoolVal(True)
        if t == 'false': return z3.BoolVal(False)
        return s.env[t]
def tobool(x): return x if z3.is_bool(x) else x != 0
def toint(x): return z3.If(x, z3.IntVal(1), z3.IntVal(0)) if z3.is_bool(x) else x
def unify(a, b):
    if z3.is_bool(a) and z3.is_bool(b): return a, b
    return toint(a), toint(b)
def cpp_bin(op, l, r):
    if op == '||': return z3.Or(tobool(l), tobool(r))
    if op == '&&': return z3.And(tobool(l), tobool(r))
    l, r = toint(l), toint(r)
    if op == '+': return l + r
    if op == '-': return l - r
    if op == '*': return l * r
    if op == '==': return l == r
    if op == '!=': return l != r
    if op == '<': return l < r
    if op == '>': return l > r
    if op == '<=': return l <= r
    if op == '>=': return l >= r
    raise NotImplementedError(op)
def py_expr(n, env):
    if isinstance(n, ast.Name): return env[n.id]
    if isinstance(n, ast.Constant):
        return z3.BoolVal(n.value) if isinstance(n.value, bool) else z3.IntVal(n.value)
    if isinstance(n, ast.UnaryOp):
        v = py_expr(n.operand, env)
        if isinstance(n.op, ast.Not): return z3.Not(tobool(v))
        if isinstance(n.op, ast.USub): return -toint(v)
    if isinstance(n, ast.BoolOp):
        vs = [tobool(py_expr(v, env)) for v in n.values]   # bool-typed operands only
        return z3.And(*vs) if isinstance(n.op, ast.And) else z3.Or(*vs)
    if isinstance(n, ast.BinOp):
        l, r = toint(py_expr(n.left, env)), toint(py_expr(n.right, env))
        return {ast.Add: l + r, ast.Sub: l - r, ast.Mult: l * r}[type(n.op)]
    if isinstance(n, ast.Compare):
        vals = [toint(py_expr(n.left, env))] + [toint(py_expr(c, env)) for c in n.comparators]
        cs = []
        for i, op in enumerate(n.ops):
            l, r = vals[i], vals[i+1]
            cs.append({ast.Eq: l == r, ast.NotEq: l != r, ast.Lt: l < r, ast.Gt: l > r, ast.LtE: l <= r, ast.GtE: l >= r}[type(op)])
        return z3.And(*cs) if len(cs) > 1 else cs[0]
    if isinstance(n, ast.IfExp):
        a, b = unify(py_expr(n.body, env), py_expr(n.orelse, env))
        return z3.If(tobool(py_expr(n.test, env)), a, b)
    raise NotImplementedError(ast.dump(n))

exprs = ['not a == b', 'a < b < c', 'a + b * c - (a - b)', 'not a < b and c == a', 'a if a > b else b + c', '-a * b == c', 'not (a == b)', 'a == b == c']
src = ''.join(f'def f{i}(a: int, b: int, c: int) -> bool:\n\treturn {e}\n' if isinstance(py_expr(ast.parse(e, mode="eval").body, {k: z3.Int(k) for k in "abc"}), z3.BoolRef) else f'def f{i}(a: int, b: int, c: int) -> int:\n\treturn {e}\n' for i, e in enumerate(exprs))
out = transpile(src)
rets = re.findall(r'\treturn (.+);', out)
env = {k: z3.Int(k) for k in 'abc'}
for e, r in zip(exprs, rets):
    py = py_expr(ast.parse(e, mode='eval').body, env)
    cpp = P(toks(r), env).ternary()
    s = z3.Solver()
    for v in env.values(): s.add(v >= -2**31, v < 2**31)
    py2, cpp2 = unify(py, cpp)
    s.add(py2 != cpp2)
    res = s.check()
    print(f'{e!r:32} -> {r!r:32} {res}', s.model() if str(res) == 'sat' else '')
