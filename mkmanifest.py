#!/usr/bin/env python3
"""Regenerates MANIFEST.json from the table below (run after adding a check)."""
import json
import os

HERE = os.path.dirname(os.path.abspath(__file__))

NOTE_COMMON = ('Trusted base: CrossHair 0.0.110 (symbolic execution of the real /repo functions under CPython 3.12, z3 5.1), the reference models/laws in /verif/harness, '
	'the two interpreter shims of vlib/prelude.py. Every bound, stub and assume is listed in the evidence file; a timeout / unknown is reported as inconclusive, never as discharged.')

CHECKS = {
	'C01': {
		'category': 'translation_validation',
		'engine': 'tv',
		'technique': 'translation validation: CPython ast and the emitted C++ text are both encoded as z3 bit-vector terms and compared for all inputs inside the agreement premises; sat models are replayed through g++ and CPython; one closed multi-module run obligation',
		'text': 'For each of several thousand generated scalar functions (all operator pairs and triples, unary / boolean / ternary / parenthesised / nested shapes, if-elif-else, while, for-range, break/continue, augmented assignment, '
			'declarations with inferred types, shadowing-prone reassignments, calls with default arguments, guarded raise, try / raise / except) and of 30 list[int] templates (for-in, enumerate, indexing incl. negative and symbolic indices, len arithmetic, membership, local literals with append / item assignment, comprehensions; lists modelled as a length term plus 4 element terms, parameter length <= 3) and of 12 class / enum templates (constructors with member initialiser lists, methods, field stores, single inheritance; objects modelled as field maps, C++ initialisation order and static dispatch) the real transpiler runs and z3 decides whether any inputs (three ints in [-2^15, 2^15), one bool) exist on which '
			'Python and the emitted C++ return different values or differ in raising. unsat = equal for all such inputs; sat is reported only if the compiled C++ really differs from CPython.',
		'design_ref': 'DESIGN.md section 2, C01',
		'note': 'Programs are a bounded enumeration of shapes; inputs are a solver verdict. Loops unrolled 6 times with unwinding assumption. Outside: strings, dicts, tuples, lists of non-int / slices / list methods other than append, classes beyond scalar fields / single inheritance, enums, closures, try blocks around raising calls, floats. '
			'Trusted: z3 5.1, tv/sem.py + tv/fronts.py C++ subset semantics (validated each run against g++ on solver-chosen witnesses), CPython ast, g++ for replays. Open findings listed in known_findings.json: comparison chains, boolop-value, negative-index, enumerate-continue, len-unsigned, foreach-reference, ctor-initializer-hoisting, member-init-declaration-order, non-virtual-dispatch (a difference inside a listed class region is re-solved with the region excluded; what remains is reported).',
	},
	'C05': {
		'category': 'model_checking',
		'technique': 'bounded symbolic execution / case analysis (CrossHair + z3) of the cache key computations and cache decision code over nondeterministic environment stubs; failing key steps replayed through the real pipeline; closed truncation and edit/run history obligations',
		'text': 'Sentence 1 as step laws: SyntaxParserOfLark.__call__ run twice with symbolic float mtimes of source and grammar never serves the tree stored by the first run when a mtime differs (str of a float modelled as injective); '
			'CacheProvider/CachedProxy hand a stored instance to a later process only for the same cache key and identity; Module.identity (the symbol-table file name) changes when the module or a direct import is edited, over every acyclic import graph of 4 modules '
			'(the cone at distance >= 2 is a listed finding, demonstrated through the real pipeline). Closed: edit / run / clear histories of generated module graphs through the real pipeline and cache files, every run compared with the run on an empty cache directory. '
			'Sentences 2 and 3: with os/glob/open, the source loader and the module replaced by recording stubs answering symbolic booleans, every path of CacheProvider.get and SymbolDBPersistor.stored/store/restore shows: '
			'caching disabled => no cache file opened, unlinked, globbed, created or loaded; enabled => load iff the identity file exists, else exactly one save. Every truncation offset of a stored tree / symbol table either raises or restores the original.',
		'design_ref': 'DESIGN.md section 2, C05',
		'note': 'md5 collision-freeness assumed; import graphs of <= 4 modules; histories of the listed families; the pickled Lark parser cache content is outside. ' + NOTE_COMMON,
	},
	'C06': {
		'category': 'model_checking',
		'technique': 'bounded symbolic execution (CrossHair + z3) of header extraction with a JSON codec stub, of the regeneration decision (also over all import graphs of 4 modules, failing steps replayed through the real command-line application) and of the output-path mapping; closed run / run -f histories',
		'text': 'For every single-line JSON text J (symbolic, bounded) and every rest-of-file text, the header written through to_header_str + the first template line is handed back to the decoder exactly; '
			'can_transpile is true iff there is no old header or one of its five components differs; after a run and an edit of module x, x itself is selected for regeneration over every acyclic import graph of 4 modules (importers of x are not: listed finding, demonstrated through TranspileApp); '
			'two distinct dotted module paths never map to the same output path under three output_dirs configurations (glob rules: closed obligation). Closed: edit / delete-output / upgrade / run / run -f histories of generated module graphs through the real TranspileApp, '
			'files after `run` compared with files after `run -f` at every run, unedited modules keep their file untouched.',
		'design_ref': 'DESIGN.md section 2, C06',
		'note': 'json inside header.py is stubbed as an arbitrary single-line codec (CrossHair cannot close json on symbolic strings); md5 collision-freeness assumed; graphs of <= 4 modules; histories of the listed families; generated-module caches dropped before every run (C05). ' + NOTE_COMMON,
	},
	'C07': {
		'category': 'model_checking',
		'technique': 'bounded symbolic case analysis (CrossHair + z3) of the error-normalisation code with a parser stub raising arbitrary exceptions and handlers raising arbitrary exceptions; closed (enumerated) whole-pipeline obligations over two generated program families',
		'text': 'Normalisation kernels: whatever exception the (stubbed) Lark parser raises - on disk or in memory - SyntaxParserOfLark lets only Errors.Syntax escape; whatever a Procedure handler raises at any of the first six handler calls of a real tree, '
			'an Errors.Error escapes, ErrorRender renders it, and the procedure is reusable afterwards. Whole pipeline (real Lark, every preprocessor, Py2Cpp, ErrorRender), enumerated: 16 ill-typed program templates x 24 type annotations x 37 expressions, and every single-token '
			'mutation (delete, duplicate, swap, replace by 12 / 31 tokens) of three valid programs; 453 ill-typed programs as on-disk modules with the cache enabled (two runs); 26 deeply nested / very long inputs; every history [x, y, valid] over 9 inputs through the real Interactive.run: each run succeeds or raises an Errors.Error that renders, and the interactive loop keeps reading.',
		'design_ref': 'DESIGN.md section 2, C07',
		'note': 'The pipeline families (O4-O8) are finite enumerations evaluated directly (no solver decides them; under CrossHair the same enumeration costs 2.7x more and decides nothing more). Inputs outside the families, on-disk modules through the whole pipeline and termination are outside. ' + NOTE_COMMON,
	},
	'C08': {
		'category': 'model_checking',
		'technique': 'bounded symbolic execution (CrossHair + z3) of the delimiter-joined name arithmetic with symbolic identifiers free to be prefixes / suffixes / copies of each other; finite case analysis of adversarial renamings of four template programs through the real pipeline',
		'text': 'Name-handling kernels only: DSN, ModuleDSN and EntryPath operations agree with the list-of-elements reference for every triple of identifiers up to the stated length over [a b _ 1]; relativefy for element-aligned prefixes whose text does not recur.',
		'design_ref': 'DESIGN.md section 2, C08',
		'note': 'The metamorphic relation over whole programs needs the pipeline and is outside; the regex helpers of py2cpp / cpp_view_helper did not close within budget and are outside. ' + NOTE_COMMON,
	},
	'C09': {
		'category': 'model_checking',
		'technique': 'bounded symbolic case analysis (CrossHair + z3) over program templates, the node kind returning None and the position of nested / failing nested runs; real Procedure, Nodes and node classes on trees built by the shipped grammar; one closed obligation over loaded modules with type-resolving handlers',
		'text': 'For 14 program templates x expression fillings x 9 choices of a node kind whose handler returns None x 4 positions of a nested exec (repeated failing and caught), a recording handler verifies for every visited node that each expandable property receives exactly '
			'the results of the nodes it yields (single vs list, order), that one result remains, and that a second run starts clean. prop_keys() of every node class equals the definition order read from the class bodies.',
		'design_ref': 'DESIGN.md section 2, C09',
		'note': 'Finite case split (F); Lark builds the trees concretely. ' + NOTE_COMMON,
	},
	'C10': {
		'category': 'model_checking',
		'technique': 'bounded symbolic case analysis (CrossHair + z3) over tree shapes and query orders, real finder/cache/query/resolver code run on every feasible shape; reference = documented path rule + independent walk of the shape',
		'text': 'For every tree of the stated shape family (children / grandchildren tag sequences over repeated, unique and empty tags, optional great-grandchild, optional nine extra same-tag leaves for two-digit indices) '
			'the solver-exhausted paths show: full_pathfy yields exactly one path per entry in document order by the documented rule, pluck/exists return that very entry, ids are dense in document order, '
			'children/siblings/parent/ancestor agree with the shape, and on synthetic real-tag modules the node class per path is the same under all pairs of 24 query orders and equal to a fresh resolver\'s answer. Shapes beyond the family are not claimed.',
		'design_ref': 'DESIGN.md section 2, C10',
		'note': 'Finite case split (F): shape codes are symbolic ints, each path is one concrete tree. Tags are int-selected, not symbolic strings. ' + NOTE_COMMON,
	},
	'C11': {
		'category': 'model_checking',
		'technique': 'bounded symbolic execution (CrossHair + z3) of the real tokenizer on symbolic buffers, parser run per realised token list; finite slot templates; CPython ast as oracle through a canonical form',
		'text': 'For every source buffer up to the stated length over 6-letter alphabets the parser returns a tree or Errors.Syntax whose summary names a token of the input and an existing line, and accepted buffers CPython also accepts have the same canonical structure. '
			'Derivable sentences from 13 expression, 6 statement and 6 atom templates (all 17 binary operator spellings, keyword look-alike names, literal forms) are accepted with CPython\'s structure; 18 operator spellings outside the grammar are rejected.',
		'design_ref': 'DESIGN.md section 2, C11',
		'note': 'The parser runs natively on the realised token list of each lexer path (symbolic token strings through the terminal regexes do not close). ' + NOTE_COMMON,
	},
	'C12': {
		'category': 'model_checking',
		'technique': 'bounded symbolic execution (CrossHair + z3) of the grammar tokenizer on symbolic terminal text, finite grammar-shape templates, closed fixed-point obligations on the shipped files',
		'text': 'For every string / regexp terminal text up to the stated length the one-rule grammar restores exactly that terminal, survives print-and-parse, and the rendered rule module evaluates to the same rules. '
			'For 8 rule templates x slot fillings x unwrap markers the printed rule set parses back to an equal rule set (and accepts the same sentences with the same trees). The shipped grammars reproduce the built-in rules and the checked-in rule modules.',
		'design_ref': 'DESIGN.md section 2, C12',
		'note': 'Equality modulo groups that change neither language nor trees; terminals without single quotes; compiled files compared from the Rules.from_ast( call on. ' + NOTE_COMMON,
	},
	'C13': {
		'category': 'model_checking',
		'technique': 'bounded symbolic execution (CrossHair + z3) of the real lexer/tokenizer on symbolic source buffers over character-class alphabets; differential against a reference lexer validated against CPython tokenize',
		'text': 'For every source buffer up to the stated length over alphabets of character classes (a class such as all letters stays one path): raw tokens concatenate to the source and their spans address exactly their text, '
			'no exception escapes, Indent/Dedent balance and brackets suppress line structure, the significant token sequence equals CPython\'s (through a reference lexer that is compared with the real tokenize module before every run), '
			'and layout-only rewrites (blank next to an operator, trailing blanks, comments, blank/comment lines, indentation unit) leave it unchanged. Bounded by buffer length; longer sources are not claimed.',
		'design_ref': 'DESIGN.md section 2, C13',
		'note': 'Lexical subset and layout domain as listed in the evidence assumptions; tokenizer.re.split is shimmed for the backslash-free continuation pattern. ' + NOTE_COMMON,
	},
	'C14': {
		'category': 'model_checking',
		'technique': 'bounded symbolic case analysis (CrossHair + z3) over attribute-tree shapes and module declaration orders; real expand/_deserialize_attrs/SymbolDB code on stub reflections; one closed export / import obligation over three multi-module programs through the real pipeline',
		'text': 'Attribute-path and ordering kernels: for every attribute tree of the family (fan-out up to 12, depth 3) flattening and _deserialize_attrs rebuild an isomorphic tree, twice, without growing the table; for every declaration order and reference assignment of a 5-row module '
			'the export order never refers forward, import into a table holding only the other module restores every row, marks the module completed, and a second import changes nothing.',
		'design_ref': 'DESIGN.md section 2, C14',
		'note': 'Stub reflections; node/decl/via restoration through Entrypoints is outside. ' + NOTE_COMMON,
	},
	'C15': {
		'category': 'model_checking',
		'technique': 'bounded symbolic execution (CrossHair + z3) of Serialization.dumps/loads with symbolic positions, flags and strings; closed JSON-layer and truncation obligations',
		'text': 'For 5 tree shapes with a symbolic token and a symbolic tree slot (8 unbounded position ints, presence / meta.empty flags; names and values over small alphabets) the restored tree equals the fresh one field by field through the Entry interface, also on a second walk, '
			'with the same full paths, and dumps is idempotent. The JSON text layer round-trips representative strings; every truncated file raises or restores the original.',
		'design_ref': 'DESIGN.md section 2, C15',
		'note': 'lark.Token construction realises strings (finite alphabets for names/values). ' + NOTE_COMMON,
	},
	'C16': {
		'category': 'model_checking',
		'technique': 'bounded symbolic execution (CrossHair + z3) of the span arithmetic: SourceMap.make vs a reference, span views, the error quotation on symbolic columns, rendering through a real node; one closed span-nesting obligation over loaded modules',
		'text': 'Span arithmetic kernels: SourceMap.make equals the line/column reference for every buffer and offset pair in the bound; EntryOfLark.source_map returns the recorded span or the documented default, also through the cache round trip; '
			'the quotation marks exactly columns [begin, end) of the reported line (multi-line nodes to the end of the line, tabs one-for-one), also through ErrorRender on a real node.',
		'design_ref': 'DESIGN.md section 2, C16',
		'note': 'Spans produced by Lark are outside; file access of error_render is an in-memory stub. ' + NOTE_COMMON,
	},
	'C17': {
		'category': 'model_checking',
		'technique': 'bounded symbolic execution (CrossHair + z3) of the evaluator kernels on unbounded symbolic ints / symbolic literal text, plus direct QF_BVFP queries (cvc5 + z3) generated from the AST of the current evaluator source; closed enum / cast obligations through the real pipeline',
		'text': 'z3 closes every path of _op_bin_each/_calc/_bitwise for int operands (+ - * % shifts unbounded; | ^ & small range), 3-operand left folds, unary sign, DEC/HEX literal decoding, string concatenation over all quote-kind pairs and the scalar casts against CPython semantics '
			'(equal value and type, or refusal). K2 specialises the current source per operand-type triple and asks cvc5/z3 whether any signed 64-bit / binary64 operands give a value different from CPython\'s (int/int true division through a binary128 oracle). '
			'Counterexamples are replayed on the real evaluator.',
		'design_ref': 'DESIGN.md section 2, C17',
		'note': 'A handler exception counts as refusal (Procedure wraps it into an Errors.Error). Outside: float chains, enum references through the pipeline, escapes/prefixes in strings. ' + NOTE_COMMON + ' K2 additionally trusts cvc5 1.4 (fp-exp) and smt/specialise.py.',
	},
	'C18': {
		'category': 'model_checking',
		'technique': 'bounded symbolic execution (CrossHair + z3) of the real helpers against an independent reference splitter; counterexamples replayed concretely; one closed dict-comprehension obligation through the real pipeline',
		'text': 'For every well-formed fragment up to the stated length over per-case alphabets (brackets of two kinds, quotes, delimiters, blanks), z3 closes every path of '
			'BlockParser.break_separator / break_last_block / parse_bracket / parse_pair, DecoratorHelper and CppViewHelper.Param.parse against the laws of the property '
			'(cuts exactly at top-level delimiters, pieces balanced, rejoin, last group = (prefix, inside), decorator/parameter reassembly). Bounded: nothing is claimed beyond the lengths in the evidence.',
		'design_ref': 'DESIGN.md section 2, C18',
		'note': 'Domain: brackets balanced outside quotes, quotes closed, no escapes, quoted strings with self-balanced brackets only; single-character delimiters. ' + NOTE_COMMON,
	},
	'C19': {
		'category': 'model_checking',
		'technique': 'bounded symbolic case analysis (CrossHair + z3) over operation histories of the real DI/LazyDI containers against a reference model; observation sweep after every history',
		'text': 'Every history of 3 (quick) / 4 (thorough) operations over 48 operation codes (bind-or-rebind, unbind, resolve, invoke with two argument vectors on three targets and of two same-named closures, combine in both directions; three containers, two symbols, lazy by-name and direct definitions) '
			'is executed on the real containers and on a reference model stating the property\'s sentences; after each step can_resolve agrees, at the end every symbol is resolved twice on every container and instance identity, instance type and ValueErrors are compared.',
		'design_ref': 'DESIGN.md section 2, C19',
		'note': 'Finite case split (F): operation codes are symbolic ints decoded by comparison; the real code then runs natively. Universe and history length bounded as stated. ' + NOTE_COMMON,
	},
}

NOT_APPLICABLE = {
	'C02': 'Needs Lark lexer/LALR driver on symbolic text and CPython\'s C parser as oracle; only enumeration of concrete parses remains, which is not a solver verdict (DESIGN.md section 2, C02).',
	'C03': 'Needs whole programs through Lark + symbol pre-processors and CPython run-time types; types do not depend on input values, so there is no symbolic variable (DESIGN.md C03).',
	'C04': 'Quantifies over process histories, hash seeds and target orders of the full Lark+Jinja pipeline; nothing symbolic can flow. The encodable DI clone/combine state machine is checked under C19 (DESIGN.md C04).',
}

PENDING = {}


def main() -> None:
	checks = []
	for pid in sorted(CHECKS):
		c = CHECKS[pid]
		checks.append({
			'property_id': pid,
			'quick_cmd': f'./check {pid} --tier quick',
			'thorough_cmd': f'./check {pid} --tier thorough',
			'evidence_file': f'/verif/evidence/{pid}.json',
			'replay_cmd_template': f'./check {pid} --replay {{path}}',
			'engine': c.get('engine', 'crosshair'),
			'level_claimed': {'category': c['category'], 'text': c['text'], 'design_ref': c['design_ref']},
			'level_note': c['note'],
			'technique': c['technique'],
		})
	na = [{'property_id': k, 'reason': v} for k, v in sorted({**NOT_APPLICABLE, **PENDING}.items()) if k not in CHECKS]
	manifest = {
		'version': 1,
		'setup_cmd': './setup.sh',
		'hooks': {
			'guard': 'TRANP_VERIF',
			'enable': 'none needed: checks import /repo\'s working tree directly; interpreter shims live in /verif/vlib/prelude.py',
			'baseline_off_cmd': 'cd /repo && /venv/bin/python -m pytest -ra -q -p no:cacheprovider --timeout=900 --continue-on-collection-errors',
			'source_commits': [],
			'add_only': True,
		},
		'engines': [
			{'name': 'crosshair', 'path': '/verif/vlib/runner.py', 'serves_properties': sorted(p for p in CHECKS if CHECKS[p].get('engine', 'crosshair') == 'crosshair'), 'kind_free_text': 'E1: one CrossHair process per (obligation, case split), z3 decides every path; counterexamples replayed in a plain interpreter'},
			{'name': 'tv', 'path': '/verif/tv', 'serves_properties': sorted(p for p in CHECKS if CHECKS[p].get('engine') == 'tv'), 'kind_free_text': 'E2: translation validation, Python ast and emitted C++ both encoded as z3 terms; g++ replay'},
			{'name': 'smt', 'path': '/verif/smt', 'serves_properties': sorted(p for p in CHECKS if CHECKS[p].get('engine') == 'smt'), 'kind_free_text': 'E3: direct z3/cvc5 queries generated from the current source'},
		],
		'checks': checks,
		'not_applicable': na,
		'notes': 'Solver-based checking of the real code; see DESIGN.md. Exit codes: 0 held / inconclusive only, 1 VIOLATION, 2 harness error (never on the unchanged tree).',
	}
	with open(os.path.join(HERE, 'MANIFEST.json'), 'w') as f:
		json.dump(manifest, f, indent=1)
		f.write('\n')


if __name__ == '__main__':
	# properties still being built are listed under not_applicable with that reason until their check lands
	for pid in []:
		PENDING[pid] = 'check designed (DESIGN.md section 2) but not landed yet in this commit; not claimed until it is.'
	main()
