#!/usr/bin/env python3
"""Regenerates MANIFEST.json from the table below (run after adding a check)."""
import json
import os

HERE = os.path.dirname(os.path.abspath(__file__))

NOTE_COMMON = ('Trusted base: CrossHair 0.0.110 (symbolic execution of the real /repo functions under CPython 3.12, z3 5.1), the reference models/laws in /verif/harness, '
	'the two interpreter shims of vlib/prelude.py. Every bound, stub and assume is listed in the evidence file; a timeout / unknown is reported as inconclusive, never as discharged.')

CHECKS = {
	'C10': {
		'category': 'model_checking',
		'technique': 'bounded symbolic case analysis (CrossHair + z3) over tree shapes and query orders, real finder/cache/query/resolver code run on every feasible shape; reference = documented path rule + independent walk of the shape',
		'text': 'For every tree of the stated shape family (children / grandchildren tag sequences over repeated, unique and empty tags, optional great-grandchild, optional nine extra same-tag leaves for two-digit indices) '
			'the solver-exhausted paths show: full_pathfy yields exactly one path per entry in document order by the documented rule, pluck/exists return that very entry, ids are dense in document order, '
			'children/siblings/parent/ancestor agree with the shape, and on synthetic real-tag modules the node class per path is the same under all pairs of 24 query orders and equal to a fresh resolver\'s answer. Shapes beyond the family are not claimed.',
		'design_ref': 'DESIGN.md section 2, C10',
		'note': 'Finite case split (F): shape codes are symbolic ints, each path is one concrete tree. Tags are int-selected, not symbolic strings. ' + NOTE_COMMON,
	},
	'C13': {
		'category': 'model_checking',
		'technique': 'bounded symbolic execution (CrossHair + z3) of the real lexer/tokenizer on symbolic source buffers over character-class alphabets; differential against a reference lexer validated against CPython tokenize',
		'text': 'For every source buffer up to the stated length over alphabets of character classes (a class such as all letters stays one path): raw tokens concatenate to the source and their spans address exactly their text, '
			'no exception escapes, Indent/Dedent balance and brackets suppress line structure, the significant token sequence equals CPython\'s (through a reference lexer that is compared with the real tokenize module before every run), '
			'and layout-only rewrites (blank next to an operator, trailing blanks, comments, blank/comment lines, indentation unit) leave it unchanged. Bounded by buffer length; longer sources are not claimed.',
		'design_ref': 'DESIGN.md section 2, C13',
		'note': 'Lexical subset and layout domain as listed in the evidence assumptions; tokenizer.re.split is shimmed for the backslash-free continuation pattern. ' + NOTE_COMMON,
	},
	'C17': {
		'category': 'model_checking',
		'technique': 'bounded symbolic execution (CrossHair + z3) of the evaluator kernels on unbounded symbolic ints / symbolic literal text, plus direct QF_BVFP queries (cvc5 + z3) generated from the AST of the current evaluator source',
		'text': 'z3 closes every path of _op_bin_each/_calc/_bitwise for int operands (+ - * % shifts unbounded; | ^ & small range), 3-operand left folds, unary sign, DEC/HEX literal decoding, string concatenation over all quote-kind pairs and the scalar casts against CPython semantics '
			'(equal value and type, or refusal). K2 specialises the current source per operand-type triple and asks cvc5/z3 whether any signed 64-bit / binary64 operands give a value different from CPython\'s (int/int true division through a binary128 oracle). '
			'Counterexamples are replayed on the real evaluator.',
		'design_ref': 'DESIGN.md section 2, C17',
		'note': 'A handler exception counts as refusal (Procedure wraps it into an Errors.Error). Outside: float chains, enum references through the pipeline, escapes/prefixes in strings. ' + NOTE_COMMON + ' K2 additionally trusts cvc5 1.4 (fp-exp) and smt/specialise.py.',
	},
	'C18': {
		'category': 'model_checking',
		'technique': 'bounded symbolic execution (CrossHair + z3) of the real helpers against an independent reference splitter; counterexamples replayed concretely',
		'text': 'For every well-formed fragment up to the stated length over per-case alphabets (brackets of two kinds, quotes, delimiters, blanks), z3 closes every path of '
			'BlockParser.break_separator / break_last_block / parse_bracket / parse_pair, DecoratorHelper and CppViewHelper.Param.parse against the laws of the property '
			'(cuts exactly at top-level delimiters, pieces balanced, rejoin, last group = (prefix, inside), decorator/parameter reassembly). Bounded: nothing is claimed beyond the lengths in the evidence.',
		'design_ref': 'DESIGN.md section 2, C18',
		'note': 'Domain: brackets balanced outside quotes, quotes closed, no escapes, quoted strings with self-balanced brackets only; single-character delimiters. ' + NOTE_COMMON,
	},
	'C19': {
		'category': 'model_checking',
		'technique': 'bounded symbolic case analysis (CrossHair + z3) over operation histories of the real DI/LazyDI containers against a reference model; observation sweep after every history',
		'text': 'Every history of 3 (quick) / 4 (thorough) operations over 44 operation codes (bind-or-rebind, unbind, resolve, invoke with two argument vectors on three targets, combine in both directions; three containers, two symbols, lazy by-name and direct definitions) '
			'is executed on the real containers and on a reference model stating the property\'s sentences; after each step can_resolve agrees, at the end every symbol is resolved twice on every container and instance identity, instance type and ValueErrors are compared.',
		'design_ref': 'DESIGN.md section 2, C19',
		'note': 'Finite case split (F): operation codes are symbolic ints decoded by comparison; the real code then runs natively. Universe and history length bounded as stated. ' + NOTE_COMMON,
	},
}

NOT_APPLICABLE = {
	'C02': 'Needs Lark lexer/LALR driver on symbolic text and CPython\'s C parser as oracle; only enumeration of concrete parses remains, which is not a solver verdict (DESIGN.md section 2, C02).',
	'C03': 'Needs whole programs through Lark + symbol pre-processors and CPython run-time types; types do not depend on input values, so there is no symbolic variable (DESIGN.md C03).',
	'C04': 'Quantifies over process histories, hash seeds and target orders of the full Lark+Jinja pipeline; nothing symbolic can flow. The encodable DI clone/combine state machine is checked under C19 (DESIGN.md C04).',
}

PENDING = {}


def main() -> None:
	checks = []
	for pid in sorted(CHECKS):
		c = CHECKS[pid]
		checks.append({
			'property_id': pid,
			'quick_cmd': f'./check {pid} --tier quick',
			'thorough_cmd': f'./check {pid} --tier thorough',
			'evidence_file': f'/verif/evidence/{pid}.json',
			'replay_cmd_template': f'./check {pid} --replay {{path}}',
			'engine': c.get('engine', 'crosshair'),
			'level_claimed': {'category': c['category'], 'text': c['text'], 'design_ref': c['design_ref']},
			'level_note': c['note'],
			'technique': c['technique'],
		})
	na = [{'property_id': k, 'reason': v} for k, v in sorted({**NOT_APPLICABLE, **PENDING}.items()) if k not in CHECKS]
	manifest = {
		'version': 1,
		'setup_cmd': './setup.sh',
		'hooks': {
			'guard': 'TRANP_VERIF',
			'enable': 'none needed: checks import /repo\'s working tree directly; interpreter shims live in /verif/vlib/prelude.py',
			'baseline_off_cmd': 'cd /repo && /venv/bin/python -m pytest -ra -q -p no:cacheprovider --timeout=900 --continue-on-collection-errors',
			'source_commits': [],
			'add_only': True,
		},
		'engines': [
			{'name': 'crosshair', 'path': '/verif/vlib/runner.py', 'serves_properties': sorted(p for p in CHECKS if CHECKS[p].get('engine', 'crosshair') == 'crosshair'), 'kind_free_text': 'E1: one CrossHair process per (obligation, case split), z3 decides every path; counterexamples replayed in a plain interpreter'},
			{'name': 'tv', 'path': '/verif/tv', 'serves_properties': sorted(p for p in CHECKS if CHECKS[p].get('engine') == 'tv'), 'kind_free_text': 'E2: translation validation, Python ast and emitted C++ both encoded as z3 terms; g++ replay'},
			{'name': 'smt', 'path': '/verif/smt', 'serves_properties': sorted(p for p in CHECKS if CHECKS[p].get('engine') == 'smt'), 'kind_free_text': 'E3: direct z3/cvc5 queries generated from the current source'},
		],
		'checks': checks,
		'not_applicable': na,
		'notes': 'Solver-based checking of the real code; see DESIGN.md. Exit codes: 0 held / inconclusive only, 1 VIOLATION, 2 harness error (never on the unchanged tree).',
	}
	with open(os.path.join(HERE, 'MANIFEST.json'), 'w') as f:
		json.dump(manifest, f, indent=1)
		f.write('\n')


if __name__ == '__main__':
	# properties still being built are listed under not_applicable with that reason until their check lands
	for pid in ['C01', 'C05', 'C06', 'C07', 'C08', 'C09', 'C11', 'C12', 'C14', 'C15', 'C16']:
		PENDING[pid] = 'check designed (DESIGN.md section 2) but not landed yet in this commit; not claimed until it is.'
	main()
