"""One CrossHair obligation (or one concrete replay) in one process.

  worker.py analyze <module> <func> <timeout_s>      (case split in $VERIF_CASE)
  worker.py replay  <module> <func> <json-args>

Prints exactly one line starting with `RESULT ` followed by JSON.
Only `Exception` is ever caught around harness code: CrossHair steers paths with BaseException subclasses.
"""
import ast
import collections
import importlib
import importlib.util
import inspect
import json
import os
import re
import sys
import time
import traceback

sys.path.insert(0, os.path.dirname(os.path.dirname(os.path.abspath(__file__))))
from vlib import prelude  # noqa: E402  (side effects: sys.path, cwd, shims)


def _parse_call(message: str, fn) -> dict | None:
	"""'... when calling f('a', 6, True) (which returns False)' -> {'text': 'a', 'n': 6, 'b': True}"""
	m = re.search(r'when calling (' + re.escape(fn.__name__) + r'\(.*)$', message, re.S)
	if not m:
		return None
	text = m.group(1)
	cut = text.rfind(' (which returns')
	cands = [text[:cut]] if cut >= 0 else []
	cands.append(text)
	for cand in cands:
		try:
			node = ast.parse(cand.strip(), mode='eval').body
		except SyntaxError:
			continue
		if not isinstance(node, ast.Call):
			continue
		try:
			params = list(inspect.signature(fn).parameters)
			out = {}
			for name, arg in zip(params, node.args):
				out[name] = ast.literal_eval(arg)
			for kw in node.keywords:
				out[kw.arg] = ast.literal_eval(kw.value)
			return out
		except (ValueError, SyntaxError):
			continue
	return None


def _twin_module(mod, scratch: str):
	"""same harness, every `post:` replaced by `post: False` -> must be refuted, else the harness is vacuous."""
	src = inspect.getsource(mod)
	src = re.sub(r'^(\s*)post:.*$', r'\1post: False', src, flags=re.M)
	path = os.path.join(scratch, mod.__name__.split('.')[-1] + '_twin.py')
	with open(path, 'w') as f:
		f.write(src)
	spec = importlib.util.spec_from_file_location(mod.__name__ + '_twin', path)
	twin = importlib.util.module_from_spec(spec)
	sys.modules[spec.name] = twin
	spec.loader.exec_module(twin)
	return twin


def _analyze_fn(fn, timeout: float):
	from crosshair.core_and_libs import analyze_function, run_checkables
	from crosshair.options import AnalysisOptionSet
	from crosshair.statespace import MessageType
	stats: collections.Counter = collections.Counter()
	opts = AnalysisOptionSet(per_condition_timeout=timeout, report_all=True, stats=stats)
	t0 = time.process_time()
	msgs = run_checkables(analyze_function(fn, opts))
	cpu = time.process_time() - t0
	return msgs, stats, cpu, MessageType


def analyze(module: str, func: str, timeout: float) -> dict:
	mod = importlib.import_module(module)
	fn = getattr(mod, func)
	out: dict = {'module': module, 'func': func, 'case': prelude.CASE, 'timeout_s': timeout}

	msgs, stats, cpu, MT = _analyze_fn(fn, timeout)
	out['paths'] = int(stats.get('num_paths', 0))
	out['cpu_s'] = round(cpu, 2)
	out['cover'] = dict(prelude.COVER)
	state = 'unknown'
	detail = ''
	args = None
	for m in msgs:
		if m.state in (MT.POST_FAIL, MT.EXEC_ERR, MT.POST_ERR):
			state = 'refuted'
			detail = m.message
			args = _parse_call(m.message, fn)
			out['traceback'] = (m.traceback or '')[-1500:]
			break
		if m.state == MT.CONFIRMED:
			state = 'confirmed'
			detail = m.message
		elif m.state == MT.CANNOT_CONFIRM and state != 'confirmed':
			state = 'unknown'
			detail = m.message
		elif m.state == MT.PRE_UNSAT:
			state = 'pre_unsat'
			detail = m.message
		elif m.state in (MT.SYNTAX_ERR, MT.IMPORT_ERR):
			state = 'error'
			detail = m.message
			break
	if not msgs:
		state = 'error'
		detail = 'no conditions found'
	# reachability twin (cheap: stops at the first path that reaches the postcondition). It runs AFTER the main analysis:
	# the twin is a second import of the harness module and would otherwise re-apply the harness's environment stubs
	# (monkeypatched module attributes) with its own copies while the main analysis is still to run
	twin_state = 'skipped'
	if os.environ.get('VERIF_TWIN', '1') == '1':
		twin = _twin_module(mod, prelude.scratch())
		saved = collections.Counter(prelude.COVER)
		tmsgs, _, tcpu, _MT2 = _analyze_fn(getattr(twin, func), min(timeout, 150.0))
		twin_state = 'unreached'
		for m in tmsgs:
			if m.state == _MT2.POST_FAIL:
				twin_state = 'reached'
			elif m.state == _MT2.EXEC_ERR and twin_state != 'reached':
				twin_state = 'raised'
		out['twin_cpu_s'] = round(tcpu, 2)
		# the twin imports the harness a second time under another name; its own prelude counters are shared
		prelude.COVER.clear()
		prelude.COVER.update(saved)
	out['twin'] = twin_state

	out['state'] = state
	out['detail'] = detail[:2000]
	out['args'] = args
	return out


def replay(module: str, func: str, args: dict) -> dict:
	"""plain interpreter, no CrossHair: does the harness really fail on these arguments?"""
	mod = importlib.import_module(module)
	fn = getattr(mod, func)
	out: dict = {'module': module, 'func': func, 'args': args, 'case': prelude.CASE}
	try:
		res = fn(**args)
		out['returned'] = repr(res)[:500]
		out['reproduced'] = res is False or res is None and False
		if res is not True and res is not False:
			out['reproduced'] = not bool(res)
	except Exception as e:  # noqa: BLE001
		out['raised'] = f'{type(e).__name__}: {e}'[:500]
		out['traceback'] = traceback.format_exc()[-1500:]
		out['reproduced'] = True
	confirm = getattr(mod, 'CONFIRM', {})
	if func in confirm and out['reproduced']:
		# end-to-end demonstration (e.g. through the whole pipeline): a failing step law only counts when it shows there as well
		try:
			shown, text = confirm[func](**args)
			out['confirm'] = str(text)[:1500]
			if not shown:
				out['reproduced'] = False
				out['unconfirmed'] = True
		except Exception as e:  # noqa: BLE001
			out['confirm'] = f'(end-to-end demonstration failed to run: {type(e).__name__}: {e})'
			out['reproduced'] = False
			out['unconfirmed'] = True
	classifiers = getattr(mod, 'CLASSIFIERS', {})
	if func in classifiers:
		try:
			out['class'] = classifiers[func](**args)
		except Exception as e:  # noqa: BLE001
			out['class'] = None
			out['class_error'] = f'{type(e).__name__}: {e}'
	out['cover'] = dict(prelude.COVER)
	explain = getattr(mod, 'EXPLAIN', {})
	if func in explain:
		try:
			out['explain'] = str(explain[func](**args))[:1500]
		except Exception as e:  # noqa: BLE001
			out['explain'] = f'(explain failed: {type(e).__name__}: {e})'
	return out


def main() -> None:
	mode = sys.argv[1]
	try:
		if mode == 'analyze':
			res = analyze(sys.argv[2], sys.argv[3], float(sys.argv[4]))
		elif mode == 'replay':
			res = replay(sys.argv[2], sys.argv[3], json.loads(sys.argv[4]))
		else:
			raise SystemExit(f'unknown mode {mode}')
	except BaseException as e:  # noqa: BLE001  (outermost frame only: CrossHairInternal and friends derive from BaseException)
		if isinstance(e, (KeyboardInterrupt, SystemExit)):
			raise
		res = {'state': 'error', 'detail': f'{type(e).__name__}: {e}', 'traceback': traceback.format_exc()[-3000:]}
	print('RESULT ' + json.dumps(res, default=repr))


if __name__ == '__main__':
	main()
