"""Common prelude for every harness / worker process.

* puts /repo (or $VERIF_REPO) on sys.path and makes it the cwd (tranp's data paths are relative)
* interpreter shims for running the 3.13-targeted tree on the pinned 3.12 (harness side only, /repo is not edited)
* scratch directory outside /repo and /verif, removed on exit
* coverage counters (`cover`) used as reachability / non-vacuity witnesses
* case-split parameters (`CASE`) handed over by the runner through $VERIF_CASE
* known findings (read-only) from /verif/known_findings.json
"""
import atexit
import collections
import json
import os
import shutil
import sys
import tempfile

VERIF = os.path.dirname(os.path.dirname(os.path.abspath(__file__)))
REPO = os.environ.get('VERIF_REPO', '/repo')

sys.dont_write_bytecode = True
for p in (VERIF, REPO):
	if p in sys.path:
		sys.path.remove(p)
sys.path.insert(0, VERIF)
sys.path.insert(0, REPO)
os.chdir(REPO)

import typing
import typing_extensions

if not hasattr(typing, 'TypeIs'):
	typing.TypeIs = typing_extensions.TypeIs  # type: ignore  # py2cpp.py imports typing.TypeIs (3.13)


def shim_rules_keywords() -> None:
	"""rule.py uses `Rules.keywords.__name__` (a property has __name__ only from 3.13)."""
	from rogw.tranp.implements.syntax.tranp import rule as _rule
	kw = _rule.Rules.__dict__.get('keywords')
	if isinstance(kw, property) and not hasattr(kw, '__name__'):
		class _NamedProperty(property):
			__name__ = 'keywords'
		_rule.Rules.keywords = _NamedProperty(kw.fget, kw.fset, kw.fdel, kw.__doc__)  # type: ignore


_SCRATCH: str | None = None


def scratch() -> str:
	global _SCRATCH
	if _SCRATCH is None:
		base = os.environ.get('VERIF_SCRATCH', '/var/tmp')
		os.makedirs(base, exist_ok=True)
		_SCRATCH = tempfile.mkdtemp(prefix='verif-', dir=base)
		atexit.register(shutil.rmtree, _SCRATCH, True)
	return _SCRATCH


COVER: collections.Counter = collections.Counter()


def cover(label: str) -> None:
	"""Count a reached point. Plain Python side effect: survives CrossHair's per-path re-execution."""
	COVER[label] += 1


def ok(cond: bool) -> bool:
	"""Every harness returns through here: counts the path as having reached its postcondition."""
	COVER['reach'] += 1
	return cond


try:
	CASE: dict = json.loads(os.environ.get('VERIF_CASE', '{}') or '{}')
except ValueError:
	CASE = {}


def case(key: str, default=None):
	return CASE.get(key, default)


def known_findings() -> list[dict]:
	path = os.path.join(VERIF, 'known_findings.json')
	try:
		with open(path) as f:
			return json.load(f).get('findings', [])
	except FileNotFoundError:
		return []


def known_classes(prop: str, obligation: str | None = None) -> set[str]:
	"""witness classes listed as open findings (status == 'finding'); 'fixed' entries suppress nothing."""
	out = set()
	for e in known_findings():
		if e.get('status') != 'finding' or e.get('property') != prop:
			continue
		if obligation is None or obligation in e.get('obligations', [obligation]):
			out.add(e['class'])
	return out


# ---------------------------------------------------------------- character-class alphabets
# An alphabet is a list of character classes (strings). CrossHair keeps a whole class on one path when the code under
# test only asks "is this character in <class>" (measured: 53 identifier letters cost the same 55 paths as the single
# letter 'a'), so alphabets are unions of real lexical classes rather than single representatives.
CLASSES: list = list(CASE.get('classes', []))
ALPHA: str = ''.join(CLASSES)
PREFIX: list = list(CASE.get('prefix', []))  # class index required for each of the first len(PREFIX) characters


def in_alpha(s: str) -> bool:
	return all(c in ALPHA for c in s)


def prefix_ok(s: str) -> bool:
	if len(s) < len(PREFIX):
		return False
	for i in range(len(PREFIX)):
		if s[i] not in CLASSES[PREFIX[i]]:
			return False
	return True


LETTERS = 'abcdefghijklmnopqrstuvwxyzABCDEFGHIJKLMNOPQRSTUVWXYZ_'
DIGITS = '0123456789'


def decode(code: int, n: int) -> int:
	"""symbolic op code -> concrete int by explicit comparison (one path per value, no duplicates: measured 1936 paths for 44x44)"""
	for v in range(n):
		if code == v:
			return v
	raise AssertionError('code out of range')


def decode_bits(code: int, n: int) -> int:
	"""like decode (requires 0 <= code < n), by bisection: about log2(n) solver decisions per path instead of up to n"""
	lo, hi = 0, n
	while hi - lo > 1:
		mid = (lo + hi) // 2
		if code < mid:
			hi = mid
		else:
			lo = mid
	if code != lo:
		raise AssertionError('code out of range')
	return lo


def natively(fn, *args):
	"""run fn(*args) outside CrossHair's tracer (arguments must already be concrete, e.g. through decode): used for finite case
	splits where everything after the decode is concrete anyway - the real code then runs at native speed"""
	try:
		from crosshair.tracers import NoTracing, is_tracing
	except ImportError:
		return fn(*args)
	if not is_tracing():
		return fn(*args)
	with NoTracing():
		return fn(*args)
