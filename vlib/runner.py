"""Runs the obligations of one property: one CrossHair process per (obligation, case), up to $VERIF_JOBS at a time.

Verdict policy (DESIGN.md 1.2):
  confirmed            -> discharged
  refuted + replay reproduces + class listed as open finding -> KNOWN-FINDING, exit 0
  refuted + replay reproduces                                -> VIOLATION, exit 1
  refuted + replay does not reproduce                        -> harness error, exit 2 (never a VIOLATION)
  unknown / timeout / pre_unsat                              -> inconclusive (counted, not discharged), exit 0
"""
from __future__ import annotations

import concurrent.futures
import dataclasses
import json
import os
import subprocess
import sys
import time

VERIF = os.path.dirname(os.path.dirname(os.path.abspath(__file__)))
PY = os.path.join(VERIF, '.venv', 'bin', 'python')
WORKER = os.path.join(VERIF, 'vlib', 'worker.py')
REPO = os.environ.get('VERIF_REPO', '/repo')
EVIDENCE_DIR = os.environ.get('VERIF_EVIDENCE_DIR', os.path.join(VERIF, 'evidence'))  # redirected only when a seeded change is tried in a scratch tree


def ensure_venv() -> None:
	if not os.path.exists(os.path.join(VERIF, '.venv', 'bin', 'crosshair')):
		subprocess.run([os.path.join(VERIF, 'setup.sh')], check=True, stdout=sys.stderr)


@dataclasses.dataclass
class Job:
	obligation: str
	module: str
	func: str
	case: dict = dataclasses.field(default_factory=dict)
	timeout: float = 60.0
	kind: str = 'S'  # S: symbolic data, F: finite case split, C: closed
	bound: str = ''
	require_cover: tuple = ()  # labels that must have been reached in at least one case of this obligation

	def label(self) -> str:
		c = ','.join(f'{k}={v}' for k, v in self.case.items())
		return f'{self.obligation}:{self.func}' + (f'[{c}]' if c else '')


def _worker(mode: str, module: str, func: str, arg: str, case: dict, wall: float, extra_env: dict | None = None) -> dict:
	env = dict(os.environ)
	env['VERIF_CASE'] = json.dumps(case)
	env['PYTHONDONTWRITEBYTECODE'] = '1'
	env['PYTHONHASHSEED'] = '0'
	env.pop('PYTHONPATH', None)
	if extra_env:
		env.update(extra_env)
	t0 = time.time()
	try:
		p = subprocess.run([PY, WORKER, mode, module, func, arg], capture_output=True, text=True, timeout=wall, env=env, cwd=REPO)
	except subprocess.TimeoutExpired:
		return {'state': 'unknown', 'detail': f'hard wall timeout {wall:.0f}s', 'wall_s': round(time.time() - t0, 1), 'paths': 0}
	res = None
	for line in p.stdout.splitlines():
		if line.startswith('RESULT '):
			try:
				res = json.loads(line[7:])
			except ValueError:
				pass
	if res is None:
		res = {'state': 'error', 'detail': 'worker produced no result', 'stderr': p.stderr[-3000:], 'stdout': p.stdout[-1000:]}
	res['wall_s'] = round(time.time() - t0, 1)
	return res


def run_job(job: Job) -> dict:
	res = _worker('analyze', job.module, job.func, str(job.timeout), job.case, job.timeout * 2 + 60)
	res['job'] = job.label()
	return res


def replay(module: str, func: str, args: dict, case: dict) -> dict:
	return _worker('replay', module, func, json.dumps(args), case, 300)


class Report:
	def __init__(self, prop: str, tier: str, level: str = 'model_checking') -> None:
		self.prop = prop
		self.tier = tier
		self.level = level
		self.t0 = time.time()
		self.seed = int(os.environ.get('VERIF_SEED', '0') or 0)
		self.obligations: dict[str, dict] = {}
		self.violations: list[dict] = []
		self.known: list[str] = []
		self.errors: list[str] = []
		self.samples: list = []
		self.functions: list[str] = []
		self.bounds: dict[str, str] = {}
		self.assumptions: list[str] = []
		self.outside: list[str] = []
		self.paths = 0
		self.reach = 0
		self.cpu = 0.0
		self.extra: dict = {}
		self.lines: list[str] = []
		self.replays = 0

	# -- bookkeeping -----------------------------------------------------
	def ob(self, name: str, kind: str = 'S', bound: str = '') -> dict:
		o = self.obligations.setdefault(name, {'kind': kind, 'bound': bound, 'cases': 0, 'confirmed': 0, 'inconclusive': 0, 'vacuous_cases': 0, 'refuted': 0, 'paths': 0, 'reach': 0, 'cpu_s': 0.0, 'cover': {}})
		if bound and not o['bound']:
			o['bound'] = bound
		return o

	def say(self, line: str) -> None:
		print(line, flush=True)
		self.lines.append(line)

	def known_findings(self) -> list[dict]:
		try:
			with open(os.path.join(VERIF, 'known_findings.json')) as f:
				return [e for e in json.load(f).get('findings', []) if e.get('property') == self.prop]
		except FileNotFoundError:
			return []

	def write_replay(self, name: str, payload: dict) -> str:
		d = os.path.join(EVIDENCE_DIR, 'replays')
		os.makedirs(d, exist_ok=True)
		safe = ''.join(c if c.isalnum() or c in '.-_' else '_' for c in name)
		path = os.path.join(d, f'{self.prop}-{safe}.json')
		with open(path, 'w') as f:
			json.dump(payload, f, indent=1, default=repr)
		return path

	def violation(self, obligation: str, what: str, payload: dict) -> None:
		n = len(self.violations)
		path = self.write_replay(f'{obligation}-{n}', payload)
		self.violations.append({'obligation': obligation, 'what': what, 'replay': path})
		self.say(f'VIOLATION property={self.prop} replay={path}')
		self.say(f'  obligation={obligation} {what}')

	def known_finding(self, what: str) -> None:
		self.known.append(what)
		self.say(f'KNOWN-FINDING: property={self.prop} {what}')

	def error(self, what: str) -> None:
		self.errors.append(what)
		self.say(f'HARNESS-ERROR property={self.prop} {what}')

	# -- crosshair jobs ----------------------------------------------------
	def run_jobs(self, jobs: list[Job]) -> None:
		ensure_venv()
		nproc = int(os.environ.get('VERIF_JOBS', '16'))
		open_classes = {(e['class']) for e in self.known_findings() if e.get('status') == 'finding'}
		# longest first
		order = sorted(jobs, key=lambda j: -j.timeout)
		required: dict[str, set] = {}
		for j in jobs:
			self.ob(j.obligation, j.kind, j.bound)
			required.setdefault(j.obligation, set()).update(j.require_cover)
		with concurrent.futures.ThreadPoolExecutor(max_workers=nproc) as ex:
			futs = {ex.submit(run_job, j): j for j in order}
			for fut in concurrent.futures.as_completed(futs):
				job = futs[fut]
				res = fut.result()
				o = self.ob(job.obligation)
				o['cases'] += 1
				o['paths'] += res.get('paths', 0)
				o['cpu_s'] = round(o['cpu_s'] + res.get('cpu_s', 0.0), 2)
				cov = res.get('cover', {}) or {}
				for k, v in cov.items():
					o['cover'][k] = o['cover'].get(k, 0) + v
				o['reach'] += cov.get('reach', 0)
				self.paths += res.get('paths', 0)
				self.reach += cov.get('reach', 0)
				self.cpu += res.get('cpu_s', 0.0)
				state = res.get('state')
				if len(self.samples) < 6 and state == 'confirmed':
					self.samples.append({'obligation': job.obligation, 'harness': f'{job.module}.{job.func}', 'case': job.case, 'verdict': 'confirmed over all paths', 'paths': res.get('paths'), 'cpu_s': res.get('cpu_s'), 'cover': cov})
				if state == 'confirmed':
					if res.get('twin') == 'unreached':
						self.error(f'{job.label()}: confirmed but reachability twin not refuted (vacuous harness)')
					o['confirmed'] += 1
				elif state == 'pre_unsat':
					# a case split whose precondition no input meets (or every path timed out): not discharged
					if res.get('paths', 0) <= 3 or res.get('twin') == 'unreached':
						o['vacuous_cases'] += 1
					else:
						o['inconclusive'] += 1
					self.say(f'  note {job.label()}: {res.get("detail")} (paths={res.get("paths")})')
				elif state == 'refuted':
					self._handle_refuted(job, res, open_classes)
				elif state == 'error':
					self.error(f'{job.label()}: {res.get("detail")} {res.get("stderr", "")[-800:]} {res.get("traceback", "")[-1200:]}')
				else:
					o['inconclusive'] += 1
					self.say(f'  inconclusive {job.label()}: {res.get("detail")} (paths={res.get("paths")}, cpu={res.get("cpu_s")})')
		for name, labels in required.items():
			o = self.ob(name)
			for lab in labels:
				if o['cover'].get(lab, 0) == 0 and o['confirmed'] > 0:
					self.error(f'{name}: required coverage label {lab!r} never reached (harness does not exercise what it claims)')

	def _handle_refuted(self, job: Job, res: dict, open_classes: set) -> None:
		o = self.ob(job.obligation)
		args = res.get('args')
		if args is None:
			self.error(f'{job.label()}: counterexample could not be parsed: {res.get("detail")}')
			return
		rp = replay(job.module, job.func, args, job.case)
		self.replays += 1
		if not rp.get('reproduced'):
			self.error(f'{job.label()}: counterexample {args} does not reproduce outside CrossHair ({res.get("detail")}) -> encoding/harness problem, not reported as violation; replay={rp}')
			return
		o['refuted'] += 1
		cls = rp.get('class')
		what = f'{job.func}({", ".join(f"{k}={v!r}" for k, v in args.items())}) fails: {rp.get("raised") or ("returned " + str(rp.get("returned")))}'
		if rp.get('explain'):
			what += f' | {rp["explain"]}'
		if rp.get('confirm'):
			what += f' | {rp["confirm"]}'
		if cls and cls in open_classes:
			self.known_finding(f'obligation={job.obligation} class={cls} {what}')
			return
		self.violation(job.obligation, (f'class={cls} ' if cls else '') + what, {'property': self.prop, 'obligation': job.obligation, 'module': job.module, 'func': job.func, 'args': args, 'case': job.case, 'class': cls, 'crosshair': res.get('detail'), 'replay': rp})

	# -- recorded witnesses of known / fixed findings ------------------------
	def check_recorded(self) -> None:
		"""open findings: replay the recorded witness, print KNOWN-FINDING while it still fails.
		fixed findings: the recorded witness must not fail any more, else the defect is back -> VIOLATION."""
		ensure_venv()
		for e in self.known_findings():
			w = e.get('witness')
			if not w or 'module' not in w:
				continue
			rp = replay(w['module'], w['func'], w['args'], w.get('case', {}))
			self.replays += 1
			failing = bool(rp.get('reproduced'))
			ob = (e.get('obligations') or ['?'])[0]
			if e.get('status') == 'finding':
				if failing:
					self.known_finding(f'obligation={ob} class={e["class"]} {e.get("what", "")} witness={w["func"]}({w["args"]})')
				else:
					self.say(f'  note: recorded finding {e["class"]} no longer reproduces on this tree (repaired?) state={rp.get("state")} {rp.get("detail", "")}')
			elif e.get('status') == 'fixed':
				o = self.ob(ob + '-regression', 'C', 'recorded witness of a repaired defect')
				o['cases'] += 1
				if rp.get('state') == 'error':
					self.error(f'replay of fixed witness {e["class"]} failed to run: {rp.get("detail")}')
				elif failing:
					o['refuted'] += 1
					self.violation(ob, f'repaired defect is back: class={e["class"]} {e.get("what", "")}', {'property': self.prop, 'obligation': ob, 'module': w['module'], 'func': w['func'], 'args': w['args'], 'case': w.get('case', {}), 'replay': rp})
				else:
					o['confirmed'] += 1

	def start_closed_many(self, items: list):
		"""items: [(obligation, module, func, case, bound)] -- closed obligations evaluated in parallel processes, in the background;
		finish_closed_many(handle) registers the results"""
		ensure_venv()

		def one(it):
			t0 = time.time()
			return replay(it[1], it[2], {}, it[3]), time.time() - t0
		ex = concurrent.futures.ThreadPoolExecutor(max_workers=int(os.environ.get('VERIF_JOBS', '16')))
		return ex, items, [ex.submit(one, it) for it in items]

	def finish_closed_many(self, handle) -> None:
		ex, items, futures = handle
		for it, fu in zip(items, futures):
			self.run_closed(*it, done=fu.result())
		ex.shutdown()

	def run_closed_many(self, items: list) -> None:
		self.finish_closed_many(self.start_closed_many(items))

	def run_closed(self, obligation: str, module: str, func: str, case: dict, bound: str, done=None) -> None:
		"""closed obligation (C): a harness function without free variables, evaluated directly against the real code"""
		ensure_venv()
		t0 = time.time()
		rp, secs = done if done else (replay(module, func, {}, case), None)
		self.replays += 1
		secs = time.time() - t0 if secs is None else secs
		if rp.get('state') == 'error':
			self.error(f'{obligation}: {rp.get("detail")} {rp.get("traceback", "")[-800:]}')
			return
		if rp.get('reproduced'):
			self.ob(obligation, 'C', bound)
			self.add_direct(obligation, 'C', bound, 'refuted', cpu_s=secs)
			self.violation(obligation, f'{func}() fails: {rp.get("raised") or rp.get("returned")} | {rp.get("explain", "")}', {'property': self.prop, 'obligation': obligation, 'module': module, 'func': func, 'args': {}, 'case': case, 'replay': rp})
		else:
			self.add_direct(obligation, 'C', bound, 'confirmed', cpu_s=secs, queries=max(1, (rp.get('cover') or {}).get('member', 0)), sample={'obligation': obligation, 'closed': f'{module}.{func}()', 'verdict': 'holds (evaluated directly, no free variable)'})

	# -- closed / direct obligations ------------------------------------------
	def add_direct(self, obligation: str, kind: str, bound: str, status: str, detail: str = '', cpu_s: float = 0.0, sample=None, queries: int = 1) -> None:
		"""status: confirmed | inconclusive (violations go through .violation / .known_finding)"""
		o = self.ob(obligation, kind, bound)
		o['cases'] += 1
		o['cpu_s'] = round(o['cpu_s'] + cpu_s, 2)
		o['paths'] += queries
		self.paths += queries
		self.cpu += cpu_s
		if status == 'confirmed':
			o['confirmed'] += 1
			o['reach'] += queries
			self.reach += queries
		elif status == 'refuted':
			o['refuted'] += 1
		else:
			o['inconclusive'] += 1
			self.say(f'  inconclusive {obligation}: {detail}')
		if sample is not None and len(self.samples) < 12:
			self.samples.append(sample)

	# -- finish ----------------------------------------------------------------
	def finish(self) -> None:
		n_cases = sum(o['cases'] for o in self.obligations.values())
		n_conf = sum(o['confirmed'] for o in self.obligations.values())
		n_inc = sum(o['inconclusive'] for o in self.obligations.values())
		n_vac = sum(o['vacuous_cases'] for o in self.obligations.values())
		coverage = {
			# model_checking keys: the "model" is the real code under symbolic inputs. states = distinct path conditions that satisfied
			# every precondition and were carried to the postcondition; transitions = all explored paths / solver queries (including
			# those cut by a precondition); traces_validated_against_impl = concrete re-executions against the real code (counterexample
			# replays, recorded regression witnesses, closed obligations)
			'states': max(self.reach, 1),
			'transitions': max(self.paths, 1),
			'traces_validated_against_impl': self.replays,
			'evaluations': max(self.paths, 1),
			'distinct_nontrivial': self.reach,
			'rule': 'evaluations = execution paths / solver queries explored (each decided by z3 through CrossHair or a direct query) plus the members of closed (kind C, enumerated) obligations evaluated directly against the real code; '
				'distinct_nontrivial = paths that satisfied every precondition and reached the postcondition (each path is a distinct path-condition class of inputs), counted by the harness itself',
			'samples': self.samples or [{'note': 'no confirmed case on this run'}],
			'obligations': n_cases,
			'discharged': n_conf,
			'inconclusive': n_inc,
			'vacuous_case_splits': n_vac,
			'per_obligation': self.obligations,
			'functions_encoded': self.functions,
			'bounds': self.bounds,
			'outside_the_claim': self.outside,
			'solver_cpu_s': round(self.cpu, 1),
			'known_findings_reported': self.known,
			'violations': self.violations,
			'harness_errors': self.errors,
			'exhaustive': False,
			'checker_cmd': f'./check {self.prop} --tier {self.tier}',
			'trusted_base': ['CrossHair 0.0.110 symbolic execution of CPython 3.12 semantics', 'z3 5.1.0', 'harness reference models under /verif/harness'],
		}
		coverage.update(self.extra)
		ev = {
			'property_id': self.prop,
			'tier': self.tier,
			'seed': self.seed,
			'level': self.level,
			'coverage': coverage,
			'assumptions': self.assumptions,
			'wall_s': round(time.time() - self.t0, 1),
			'violations': len(self.violations),
		}
		os.makedirs(EVIDENCE_DIR, exist_ok=True)
		with open(os.path.join(EVIDENCE_DIR, f'{self.prop}.json'), 'w') as f:
			json.dump(ev, f, indent=1, default=repr)
		self.say(f'{self.prop} {self.tier}: obligations(cases)={n_cases} discharged={n_conf} inconclusive={n_inc} vacuous_splits={n_vac} '
			f'violations={len(self.violations)} known={len(self.known)} errors={len(self.errors)} paths={self.paths} cpu={self.cpu:.0f}s wall={time.time() - self.t0:.0f}s')
		for name, o in sorted(self.obligations.items()):
			self.say(f'  {name:<14} kind={o["kind"]} cases={o["cases"]} confirmed={o["confirmed"]} inconclusive={o["inconclusive"]} refuted={o["refuted"]} paths={o["paths"]} cpu={o["cpu_s"]}s  {o["bound"]}')
		if self.violations:
			sys.exit(1)
		if self.errors:
			sys.exit(2)
		sys.exit(0)


def class_splits(classes: list, k: int, n: int) -> list:
	"""case fragments: all texts shorter than k in one job, then one job per choice of classes for the first k characters"""
	import itertools
	out = []
	if k > 0:
		out.append({'classes': classes, 'prefix': [], 'n': k - 1})
	for t in itertools.product(range(len(classes)), repeat=k):
		out.append({'classes': classes, 'prefix': list(t), 'n': n})
	return out
