"""C07 — failures are always reported as tranp errors (error-normalisation kernels).

Real code: SyntaxParserOfLark.__load_entry (lark/parser.py) with `parser.parse` stubbed to raise an arbitrary parser exception,
Procedure.exec with a handler raising an arbitrary exception, ErrorRender.render on the resulting errors.
Symbolic (F): which exception is raised, whether the module is on disk, where in the tree the handler fails, the error's argument shape.
"""
import lark
from lark.exceptions import UnexpectedCharacters, UnexpectedEOF, UnexpectedToken
from lark.indenter import DedentError

from vlib.prelude import CASE, cover, decode, natively, ok

from rogw.tranp.cache.cache import CacheProvider, CacheSetting
from rogw.tranp.errors import Errors
from rogw.tranp.implements.syntax.lark.parser import SyntaxParserOfLark
from rogw.tranp.semantics.procedure import Procedure
from rogw.tranp.syntax.ast.parser import ParserSetting
from rogw.tranp.view.error_render import ErrorRender

from harness.c10_tree import _MAPPING, make_nodes
from harness import c16_spans  # noqa: F401  (installs the file stubs of error_render: open / os.path.exists)


def parser_errors() -> list:
	tok = lark.Token('NAME', 'x')
	tok.line, tok.column = 1, 1
	return [
		lambda: UnexpectedToken(tok, {'NAME'}),
		lambda: UnexpectedCharacters('a $ b', 2, 1, 3),
		lambda: UnexpectedEOF(['NAME']),
		lambda: DedentError('Unexpected dedent to column 1. Expected dedent to 0'),
		lambda: ValueError('bad'),
		lambda: RecursionError('deep'),
		lambda: KeyError('k'),
		lambda: AssertionError('a'),
	]


class _Parser:
	def __init__(self, which: int) -> None:
		self.which = which

	def parse(self, text: str):
		raise parser_errors()[self.which]()


class _Sources:
	def __init__(self, on_disk: bool) -> None:
		self.on_disk = on_disk

	def exists(self, path: str) -> bool:
		return self.on_disk

	def mtime(self, path: str) -> float:
		return 1.0


class _Datums(_Sources):
	pass


def check_parse_error(which: int, on_disk: bool) -> bool:
	caches = CacheProvider(CacheSetting(basedir='.verif-never-written', enabled=False))
	sp = SyntaxParserOfLark(_Datums(True), _Sources(on_disk), lambda module_path: 'x = = 1\n', ParserSetting(grammar='data/grammar.lark'), caches)  # type: ignore
	try:
		c16_spans.FILE['lines'] = ['x = = 1\n']
		sp._SyntaxParserOfLark__load_entry(_Parser(which), 'pkg.mod')  # type: ignore
	except Errors.Syntax as e:
		cover('syntax_error')
		text = ErrorRender(e).render()  # the error rendering itself never fails
		return 'Syntax' in text
	except BaseException:  # noqa: BLE001
		return False  # a third-party / internal exception escaped
	return False


def parse_error_law(which: int, on_disk: bool) -> bool:
	"""
	pre: 0 <= which < 8
	post: _
	"""
	if on_disk:
		cover('on_disk')
	else:
		cover('in_memory')
	return ok(natively(check_parse_error, decode(which, 8), True if on_disk else False))


def handler_errors(node) -> list:
	return [
		lambda: TypeError('t'),
		lambda: KeyError('k'),
		lambda: AssertionError('a'),
		lambda: IndexError('i'),
		lambda: RecursionError('r'),
		lambda: ValueError('v'),
		lambda: Errors.OperationNotAllowed(node, 'with node'),
		lambda: Errors.UnresolvedSymbol('text only'),
		lambda: Errors.NotSupported(),
		lambda: ZeroDivisionError('z'),
	]


from harness.c09_procedure import _LARK  # noqa: E402  (the shipped grammar, run concretely to build the tree)

_TREE = _LARK.parse('x = 1 + 2\nif x:\n\ty = f(x)\n')


def check_handler_error(which: int, at_call: int) -> bool:
	c16_spans.FILE['lines'] = ['x = 1 + 2\n', 'if x:\n', '\ty = f(x)\n']  # the module file the error renderer quotes from
	nodes = make_nodes(_TREE, _MAPPING)
	root = nodes.by('file_input')
	procedure = Procedure[object]()
	state = {'calls': 0, 'armed': True}

	def on_fallback(node, **event):
		state['calls'] += 1
		if state['armed'] and state['calls'] == at_call:
			raise handler_errors(node)[which]()
		return node

	procedure.on('on_fallback', on_fallback)
	try:
		procedure.exec(root)
		return at_call > state['calls']  # the failing call was never reached: nothing raised
	except Errors.Error as e:
		cover('normalised')
		text = ErrorRender(e).render()
		if type(e).__name__ not in text:
			return False
	except BaseException:  # noqa: BLE001
		return False
	# the procedure is usable afterwards (no stack left behind)
	state['armed'] = False
	return procedure.exec(root) is root


def handler_error_law(which: int, at_call: int) -> bool:
	"""
	pre: 0 <= which < 10 and 1 <= at_call <= 6
	post: _
	"""
	return ok(natively(check_handler_error, decode(which, 10), decode(at_call, 7)))


CLASSIFIERS: dict = {}
EXPLAIN = {
	'parse_error_law': lambda which, on_disk: f'parser raises {type(parser_errors()[which]()).__name__}, module on disk={on_disk}: the exception escaping __load_entry is not an Errors.Syntax (or its rendering failed)',
	'handler_error_law': lambda which, at_call: f'handler raises error #{which} at call {at_call}: not normalised to an Errors.Error / rendering failed / procedure unusable afterwards',
}
