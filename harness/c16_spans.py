"""C16 — a node's source span covers exactly the node's own text (span arithmetic kernels).

Real code: Token.SourceMap.make (tranp/token.py), EntryOfLark.source_map (lark/entry.py), Nodes.source_map / Node.source_map,
ErrorRender.render / __build_quotation / Quotation (view/error_render.py).
Symbolic (S): source buffer and offsets; the reported line's text; span line/column integers.
Spans *produced by Lark* are outside (DESIGN.md C16): the claim is that recorded spans are carried, sliced and quoted exactly.
"""
import lark

from vlib.prelude import ALPHA, CASE, cover, in_alpha, ok, prefix_ok

from rogw.tranp.errors import Errors
from rogw.tranp.implements.syntax.lark.entry import EntryOfLark
from rogw.tranp.implements.syntax.tranp.token import Token
from rogw.tranp.view import error_render
from rogw.tranp.view.error_render import ErrorRender

from harness.c10_tree import make_nodes, _MAPPING

MAXLEN: int = int(CASE.get('n', 5))
SECOND = CASE.get('second')


# ---------------------------------------------------------------- O1 SourceMap.make
def line_col(source: str, offset: int) -> tuple:
	"""independent reference: (number of line breaks before offset, distance to the start of that line)"""
	line = 0
	col = 0
	for i in range(offset):
		if source[i] == '\n':
			line += 1
			col = 0
		else:
			col += 1
	return line, col


def make_law(source: str, begin: int, end: int) -> bool:
	"""
	pre: len(source) <= MAXLEN
	pre: in_alpha(source)
	pre: prefix_ok(source)
	pre: 0 <= begin <= end <= len(source)
	post: _
	"""
	sm = Token.SourceMap.make(source, begin, end)
	bl, bc = line_col(source, begin)
	el, ec = line_col(source, end)
	if el > bl:
		cover('multi_line')
	if el > bl + 1:
		cover('several_line_breaks')
	if (sm.begin_line, sm.begin_column) > (sm.end_line, sm.end_column):
		return ok(False)
	return ok(tuple(sm) == (bl, bc, el, ec))


def explain_make(source: str, begin: int, end: int) -> str:
	return f'SourceMap.make({source!r}, {begin}, {end}) = {tuple(Token.SourceMap.make(source, begin, end))}, reference {line_col(source, begin) + line_col(source, end)}'


# ---------------------------------------------------------------- O5 EntryOfLark.source_map
def entry_span_law(is_tree: bool, has_pos: bool, empty: bool, l: int, c: int, el: int, ec: int) -> bool:
	"""
	pre: l >= 0 and c >= 0 and el >= 0 and ec >= 0
	post: _
	"""
	if is_tree:
		meta = lark.tree.Meta()
		if has_pos:
			meta.line, meta.column, meta.end_line, meta.end_column = l, c, el, ec
			meta.empty = empty
		got = EntryOfLark(lark.Tree('block', [], meta)).source_map
		recorded = has_pos and not empty
	else:
		tok = lark.Token('NAME', 'x')
		if has_pos:
			tok.line, tok.column, tok.end_line, tok.end_column = l, c, el, ec
		got = EntryOfLark(tok).source_map
		# Lark positions are 1-based: a 0 means "no position recorded"
		recorded = has_pos and l > 0 and c > 0 and el > 0 and ec > 0
	if recorded:
		cover('recorded')
		return ok(got == {'begin': (l, c), 'end': (el, ec)})
	cover('default')
	return ok(got == {'begin': (0, 0), 'end': (0, 0)})


def restored_span_law(has_pos: bool, empty: bool, l: int, c: int, el: int, ec: int, tl: int, tc: int, tel: int, tec: int) -> bool:
	"""
	pre: l >= 0 and c >= 0 and el >= 0 and ec >= 0 and tl >= 0 and tc >= 0 and tel >= 0 and tec >= 0
	post: _
	"""
	# "This holds equally after the tree was restored from the cache": every span read through the restored tree is the recorded one
	from rogw.tranp.implements.syntax.lark.entry import Serialization
	meta = lark.tree.Meta()
	if has_pos:
		meta.line, meta.column, meta.end_line, meta.end_column = l, c, el, ec
		meta.empty = empty
	tok = lark.Token('NAME', 'x')
	tok.line, tok.column, tok.end_line, tok.end_column = tl, tc, tel, tec
	tree = lark.Tree('file_input', [lark.Tree('block', [tok, None], meta)])
	restored = Serialization.loads(Serialization.dumps(tree))
	a = EntryOfLark(tree).children[0]
	b = EntryOfLark(restored).children[0]
	if el > l:
		cover('multi_line')
	return ok(a.source_map == b.source_map and a.children[0].source_map == b.children[0].source_map and a.children[1].source_map == b.children[1].source_map)


# ---------------------------------------------------------------- O3 quotation of the reported region
FILE: dict = {'lines': []}


def _fake_open(path, mode='r', *a, **kw):
	"""environment stub for error_render.open: a real in-memory file holding FILE['lines'] (binary or text as requested),
	so that any way of reading it (readlines / read / iteration) behaves as on disk"""
	import io
	text = ''.join(FILE['lines'])
	return io.BytesIO(text.encode('utf-8')) if 'b' in mode else io.StringIO(text)


class _FakePath:
	sep = '/'

	@staticmethod
	def exists(path) -> bool:
		return True


class _FakeOs:
	"""`os` as seen by error_render.py: the module file always "exists"; nothing else differs"""
	path = _FakePath()

	@staticmethod
	def getcwd() -> str:
		return '/repo'


error_render.open = _fake_open  # type: ignore  (environment stub: file content = FILE['lines'])
error_render.os = _FakeOs()  # type: ignore


def expected_mark(shown_line: str, bc: int, ec: int, same_line: bool) -> str:
	width = (ec - bc) if same_line else (len(shown_line) - bc)
	return ' ' * bc + '^' * max(1, width)


LINES = ['', 'a', '\t', 'a\tb', '\t\tx = 1', '  y(', 'if a:\t# c', '\t \t', 'a\x0cb = "\x0b"', 's = "\x85\u2028"']


def quotation_law(li: int, bc: int, ec: int, same_line: bool, second: bool) -> bool:
	"""
	pre: 0 <= li < len(LINES)
	pre: 0 <= bc <= ec <= len(LINES[li])
	pre: SECOND is None or second == bool(SECOND)
	post: _
	"""
	# the reported line's text is one of LINES (finite split: CrossHair 0.0.110 raises an internal error in str.replace on
	# symbolic strings, which the real __load_line calls); the columns stay symbolic
	from vlib.prelude import decode
	line = LINES[decode(li, len(LINES))]
	# a two-line file; the reported node starts on line `second` (0-based) and ends on it or on a later one
	other = 'zz = 1'
	# (the symbolic line is handed over without its line break: CrossHair 0.0.110 raises an internal error in str.replace on a
	# symbolic + concrete concatenation; the fixed neighbour line keeps its break, so the '\n' removal is still exercised)
	lines = [other + '\n', line + '\n'] if second else [line + '\n', other + '\n']
	FILE['lines'] = lines
	bl = 1 if second else 0
	q = ErrorRender.Quotation('m.py', (bl, bc, bl if same_line else bl + 1, ec if same_line else 0))
	out = q.build()
	shown = line.replace('\t', ' ')
	if '\t' in line:
		cover('tab')
	if not same_line:
		cover('multi_line_node')
	if bc == ec:
		cover('zero_width')
	mark = expected_mark(shown, bc, ec, same_line)
	return ok(out == ['via Node:', f'  m.py:{bl + 1}', f'    >>> {shown}', f'        {mark}'])


def explain_quotation(li: int, bc: int, ec: int, same_line: bool, second: bool) -> str:
	line = LINES[li]
	other = 'zz = 1'
	FILE['lines'] = [other + '\n', line + '\n'] if second else [line + '\n', other + '\n']
	bl = 1 if second else 0
	q = ErrorRender.Quotation('m.py', (bl, bc, bl if same_line else bl + 1, ec if same_line else 0))
	return f'Quotation(line {bl}, columns [{bc},{ec}), same_line={same_line}) of {line!r} -> {q.build()!r}; expected mark {expected_mark(line.replace(chr(9), " "), bc, ec, same_line)!r}'


# ---------------------------------------------------------------- O3' through a real node: ErrorRender(Errors.X(node))
SOURCE_LINES = ['import a  # \x0c page break, \x0b, \x1c in a comment\n', 'def f(x):\n', '\treturn x + 1\n']


def render_law(line: int, c: int, ec: int, has_pos: bool) -> bool:
	"""
	pre: 1 <= line <= 3
	pre: 1 <= c <= ec <= 12
	post: _
	"""
	# a real Nodes/Node over a synthetic tree whose statement carries the (1-based, Lark style) span
	meta = lark.tree.Meta()
	if has_pos:
		meta.line, meta.column, meta.end_line, meta.end_column = line, c, line, ec
		meta.empty = False
	tree = lark.Tree('file_input', [lark.Tree('pass_stmt', [], meta)])
	nodes = make_nodes(tree, _MAPPING)
	node = nodes.by('file_input.pass_stmt')
	FILE['lines'] = SOURCE_LINES
	try:
		raise Errors.NodeNotFound(node, 'detail')
	except Errors.Error as e:
		text = ErrorRender(e).render()  # must not fail (C07: the error rendering itself never fails)
	if not has_pos:
		cover('no_position')
		return ok('NodeNotFound' in text)
	shown = SOURCE_LINES[line - 1].replace('\n', '').replace('\t', ' ')
	mark = ' ' * (c - 1) + '^' * max(1, ec - c)
	cover('position')
	return ok(f'    >>> {shown}\n        {mark}\n' in text and f':{line}\n' in text)


def explain_render(line: int, c: int, ec: int, has_pos: bool) -> str:
	return f'node span ({line},{c})..({line},{ec}) has_pos={has_pos}: rendered quotation does not show line {line} with carets on columns [{c - 1},{ec - 1})'


CLASSIFIERS: dict = {}
EXPLAIN = {'make_law': explain_make, 'quotation_law': explain_quotation, 'render_law': explain_render}
