"""C17-K6 — composition through the real pipeline: enum member values that refer to other members / other enums (closed obligation).

Real code: the complete in-memory pipeline (tv/driver.py recipe), Reflections, LiteralEvaluator.exec including on_var / on_relay
(member and cross-enum references), Procedure. Oracle: the same module executed by CPython.
No free variable: a family of filled templates is evaluated directly (labelled closed in the evidence).
"""
import itertools

from vlib.prelude import cover, ok

from tv import driver

from rogw.tranp.implements.transpiler.evaluator import LiteralEvaluator
from rogw.tranp.module.modules import Modules
from rogw.tranp.semantics.reflections import Reflections
import rogw.tranp.syntax.node.definition as defs

TEMPLATE = '''from enum import Enum

class E0(Enum):
	A = {l0}
	B = A {op1} {l1}
	C = (A {op2} B) {op1} {l0}

class Texture:
	class Kind(Enum):
		A = {l1}
		B = E0.B.value {op2} A

class Buffer:
	class Kind(Enum):
		A = {l2}
		B = A {op1} E0.C.value

class Flags(Enum):
	U = Buffer.Kind.B.value {op2} {l1}
	V = Texture.Kind.B.value {op1} U

E0.A.value
E0.B.value
E0.C.value
Texture.Kind.A.value
Texture.Kind.B.value
Buffer.Kind.A.value
Buffer.Kind.B.value
Flags.U.value
Flags.V.value
Texture.Kind.B.value
Buffer.Kind.A.value
'''
LITERALS = ['1', '7', '0x10', '255', '3']
OPS = ['+', '-', '*', '|', '^']


def fillings() -> list:
	out = []
	for i, (o1, o2) in enumerate(itertools.product(OPS, repeat=2)):
		l0, l1, l2 = LITERALS[i % 5], LITERALS[(i + 1) % 5], LITERALS[(i + 3) % 5]
		out.append({'l0': l0, 'l1': l1, 'l2': l2, 'op1': o1, 'op2': o2})
	return out


def evaluate(source: str) -> tuple:
	"""-> (values folded by tranp, values CPython computes) for the trailing `X.value` statements"""
	app = driver._app()
	driver._SRC['code'] = source
	module = app.resolve(Modules).load('__main__')
	evaluator = LiteralEvaluator(app.resolve(Reflections))
	relays = [n for n in module.entrypoint.statements if isinstance(n, defs.Relay)]
	folded = []
	for n in relays:
		try:
			folded.append(evaluator.exec(n))
		except Exception as e:  # noqa: BLE001  a refusal is allowed
			folded.append(('refused', type(e).__name__))
	ns: dict = {}
	exec(source, ns)
	want = [eval(n.tokens, ns) for n in relays]
	return folded, want


def enum_values_closed() -> bool:
	for f in fillings():
		source = TEMPLATE.format(**f)
		folded, want = evaluate(source)
		for got, exp in zip(folded, want):
			if isinstance(got, tuple) and got and got[0] == 'refused':
				cover('refused')
				continue
			cover('value')
			if type(got) is not type(exp) or got != exp:
				return ok(False)
	return ok(True)


def explain_enum_values() -> str:
	for f in fillings():
		source = TEMPLATE.format(**f)
		folded, want = evaluate(source)
		if any(not (isinstance(g, tuple) and g and g[0] == 'refused') and (type(g) is not type(e) or g != e) for g, e in zip(folded, want)):
			return f'filling {f}: folded {folded!r}, CPython {want!r}'
	return 'no difference'


EXPLAIN = {'enum_values_closed': explain_enum_values}
CLASSIFIERS: dict = {}


# ---------------------------------------------------------------- two modules with same-named enums in one run
def _mode_source(a: str, b: str, c: str) -> str:
	return f'from enum import Enum\n\nclass Mode(Enum):\n\tFast = {a}\n\tSlow = {b}\n\tName = {c}\n\ndef f() -> int:\n\treturn Mode.Fast.value\n\ndef g() -> float:\n\treturn Mode.Slow.value\n\ndef h() -> str:\n\treturn Mode.Name.value\n'


TWO_MODULES = [
	{'c17.disk': _mode_source('1 << 4', '7 / 2 - 0.5', '"disk-" + "4"'), 'c17.net': _mode_source('1 << 8', '9 / 2', '"net-" + "2"')},
	{'c17.disk': _mode_source('3', '1.5', '"a"'), 'c17.net': _mode_source('3 + 1', '1.5 * 2', '"a" + "b"')},
]
TWO_NOTES: list = []


def enum_two_modules_closed() -> bool:
	"""one run (one application, one transpiler object) over two modules that declare a same-named enum with different member
	values: the literal emitted for `Mode.<member>.value` in each module is the value CPython computes for that module, in both
	transpile orders"""
	import re
	from tv import driver
	from rogw.tranp.module.modules import Modules
	from rogw.tranp.transpiler.types import ITranspiler
	del TWO_NOTES[:]
	for program in TWO_MODULES:
		for order in (sorted(program), sorted(program, reverse=True)):
			app = driver.make_app(program, sorted(program))
			modules, transpiler = app.resolve(Modules), app.resolve(ITranspiler)
			for m in order:
				cover('module')
				text = transpiler.transpile(modules.load(m).entrypoint)
				ns: dict = {}
				exec(program[m], ns)  # noqa: S102  the fixed sources above
				for fn in ('f', 'g', 'h'):
					found = re.search(r'\b' + fn + r'\(\) \{\n\treturn (.*);\n\}', text)
					want = ns[fn]()
					got = eval(found.group(1)) if found else '<not emitted>'  # noqa: S307  a numeric / string literal
					if type(got) is not type(want) or got != want:
						TWO_NOTES.append(f'modules transpiled in the order {order}: {m}.{fn}() returns the literal {found.group(1) if found else None!r}, CPython {want!r}')
	return ok(not TWO_NOTES)


EXPLAIN['enum_two_modules_closed'] = lambda: ' ; '.join(TWO_NOTES[:3])


# ---------------------------------------------------------------- cast forms through the pipeline
CAST_FORMS = ['int("12", 8) + 0', 'int("12", base=8)', 'str(1, 2)', 'int(x=1)', 'int()', 'str()', 'str("""a""")', 'str(r"a")', 'str(b"a")', "str('a')", 'str("a")', 'int("7")', 'int(" 12 ")', 'int("1_0")', 'int("+5")', 'int("-5")',
	'int("0x1f", 16)', 'int("a")', 'float("1.5")', 'float("1e3")', 'float(" 2.5 ")', 'float(3)', 'int(1.9)', 'int(-1.5)', 'str(12)', 'str(-0)', 'str(0x10)', 'str(1.5)', 'str(1.0)', 'str(1e20)', 'str(7 / 2)',
	'str("a" + "b")', 'int(str(12))', 'float(str(1.5))', 'str(int("3"))', 'int("3") + int("4")', 'str("it\'s")', 'str("say \\"hi\\"")', 'int(float("2.5"))']
CAST_NOTES: list = []


def cast_forms_closed() -> bool:
	import re
	from tv import driver
	from rogw.tranp.errors import Errors
	del CAST_NOTES[:]
	for e in CAST_FORMS:
		cover('member')
		try:
			want = ('value', eval(e))  # noqa: S307  fixed pool
		except Exception:  # noqa: BLE001
			want = ('raises',)
		source = f'from enum import Enum\n\nclass E(Enum):\n\tA = {e}\n\ndef f() -> None:\n\tprint(E.A.value)\n'
		try:
			text = driver.transpile(source)
		except Errors.Error:
			cover('refused')
			continue
		except Exception as ex:  # noqa: BLE001
			CAST_NOTES.append(f'{e}: {type(ex).__name__} escapes')
			continue
		found = re.search(r'printf\((.*)\);', text)
		if not found:
			CAST_NOTES.append(f'{e}: no folded literal in {text[-120:]!r}')
			continue
		try:
			got = eval(found.group(1))  # noqa: S307  a numeric / string literal
		except Exception:  # noqa: BLE001
			CAST_NOTES.append(f'{e}: folded to {found.group(1)!r}, which is not a literal')
			continue
		cover('value')
		if want[0] == 'raises':
			CAST_NOTES.append(f'{e}: folded to {found.group(1)!r} although CPython raises')
		elif type(got) is not type(want[1]) or got != want[1]:
			CAST_NOTES.append(f'{e}: folded to {found.group(1)!r}, CPython gives {want[1]!r}')
	return ok(not CAST_NOTES)


EXPLAIN['cast_forms_closed'] = lambda: ' ; '.join(CAST_NOTES[:5])
