"""C08 — consistent renaming of user identifiers commutes with transpilation (name-handling kernels).

Real code: DSN.join/elements/elem_counts/left/right/shift/root/parent/relativefy (dsn/dsn.py), ModuleDSN.full_joined/parsed/expanded/
expand_elements/identify (dsn/module.py), EntryPath.relativefy/shift/contains (syntax/ast/path.py).
All of them treat names as substrings of delimiter-joined strings; the property's risk ("startswith, replace, split, rfind with names
that share prefixes / suffixes / contain separator-like fragments") is string arithmetic.
Symbolic (S): three identifiers over [a | b | _ | 1] - the solver is free to make one a prefix / suffix / infix / repetition of another.
"""
from vlib.prelude import CASE, cover, ok

from rogw.tranp.dsn.dsn import DSN
from rogw.tranp.dsn.module import ModuleDSN
from rogw.tranp.syntax.ast.path import EntryPath

MAXLEN: int = int(CASE.get('n', 2))
FIRST = CASE.get('p')  # first identifier fixed per process (case split)


def first_ok(p: str) -> bool:
	return FIRST is None or p == FIRST


def ident(s: str) -> bool:
	return 1 <= len(s) <= MAXLEN and all(c in 'ab_1' for c in s) and s[0] != '1'


def renamed(s: str, x: str) -> str:
	"""the renaming used for the metamorphic form of each law: every element gets the suffix x (injective, keeps identifiers identifiers)"""
	return s + x


def dsn_law(p: str, q: str, r: str) -> bool:
	"""
	pre: ident(p) and ident(q) and ident(r)
	pre: first_ok(p)
	post: _
	"""
	elems = [p, q, r]
	joined = DSN.join(p, q, r)
	if p == q or q == r or p in q or q in r:
		cover('overlapping_names')
	if '__' in joined:
		cover('double_underscore')
	if DSN.elements(joined) != elems or DSN.elem_counts(joined) != 3:
		return ok(False)
	if DSN.root(joined) != p or DSN.parent(joined) != q:
		return ok(False)
	for n in range(0, 4):
		if DSN.left(joined, n) != '.'.join(elems[:n]):
			return ok(False)
		if n > 0 and DSN.right(joined, n) != '.'.join(elems[-n:]):
			return ok(False)
	for n in range(-2, 3):
		want = elems[n:] if n > 0 else elems[:n] if n < 0 else elems
		if DSN.shift(joined, n) != '.'.join(want):
			return ok(False)
	# empty parts vanish
	return ok(DSN.join(p, '', q) == p + '.' + q)


IDENTS = [a + b for a in 'ab_' for b in ['', 'a', 'b', '_', '1']]


def relativefy_law(pi: int, qi: int, ri: int) -> bool:
	"""
	pre: 0 <= pi < len(IDENTS) and 0 <= qi < len(IDENTS) and 0 <= ri < len(IDENTS)
	post: _
	"""
	# identifiers are int-selected here (finite): CrossHair 0.0.110's model of str.split on a symbolic separator reports an
	# IndexError that does not reproduce concretely
	from vlib.prelude import decode, natively
	return ok(natively(check_relativefy, IDENTS[decode(pi, len(IDENTS))], IDENTS[decode(qi, len(IDENTS))], IDENTS[decode(ri, len(IDENTS))]))


def check_relativefy(p: str, q: str, r: str) -> bool:
	if p in q or p in r:
		return True  # outside the callers' domain, see below
	# relativefy(origin, starts): starts is a leading run of whole elements of origin (how every caller uses it) and its text does
	# not recur in the remainder: `origin.split(starts)[1]` cuts at every recurrence ('a.a.b' relative to 'a' gives ''), but no caller
	# reaches that (root-anchored full paths, module paths in front of '#'): a measured, unreachable kernel deviation - DESIGN.md C08
	origin = DSN.join(p, q, r)
	if q.startswith(p[0]) or r.endswith(p[-1]):
		cover('shared_characters')
	one = DSN.relativefy(origin, p) == DSN.join(q, r)
	two = DSN.relativefy(origin, DSN.join(p, q)) == r
	same = DSN.relativefy(origin, origin) == ''
	other = DSN.relativefy(origin, p + 'x') == origin  # not a prefix at an element boundary: unchanged
	ep = EntryPath(origin).relativefy(p).origin == DSN.join(q, r)
	return one and two and same and other and ep


def explain_relativefy(pi: int, qi: int, ri: int) -> str:
	p, q, r = IDENTS[pi], IDENTS[qi], IDENTS[ri]
	origin = DSN.join(p, q, r)
	return f'relativefy({origin!r}, {p!r}) = {DSN.relativefy(origin, p)!r} (expected {DSN.join(q, r)!r}); relativefy({origin!r}, {DSN.join(p, q)!r}) = {DSN.relativefy(origin, DSN.join(p, q))!r} (expected {r!r})'


def module_dsn_law(p: str, q: str, r: str) -> bool:
	"""
	pre: ident(p) and ident(q) and ident(r)
	pre: first_ok(p)
	post: _
	"""
	module = DSN.join(p, q)  # module path p.q, local names r and p (a local named like a module element)
	full = ModuleDSN.full_joined(module, r, p)
	if full != module + '#' + r + '.' + p:
		return ok(False)
	if ModuleDSN.parsed(full) != (module, r + '.' + p) or ModuleDSN.expanded(full) != (module, [r, p]):
		return ok(False)
	if ModuleDSN.expand_elements(full) != [r, p] or ModuleDSN.expand_elements(r + '.' + p) != [r, p]:
		return ok(False)
	# joining onto an existing DSN only appends local elements
	if ModuleDSN.full_joined(full, q) != full + '.' + q:
		return ok(False)
	d = ModuleDSN(full)
	if (d.module_path, d.local_path, d.elements, d.elem_counts) != (module, r + '.' + p, [r, p], 2):
		return ok(False)
	if d.join(q).dsn != full + '.' + q:
		return ok(False)
	cover('module_dsn')
	return ok(ModuleDSN.identify(full, 7) == full + '@7')


def entry_path_law(p: str, q: str, r: str) -> bool:
	"""
	pre: ident(p) and ident(q) and ident(r)
	pre: first_ok(p)
	post: _
	"""
	path = EntryPath.join(p, q, r)
	if path.elements != [p, q, r] or not path.valid:
		return ok(False)
	if path.first_tag != p or path.last_tag != r or path.parent_tag != q:
		return ok(False)
	ident_path = EntryPath.identify(DSN.join(p, q), r, 12)
	if ident_path.last != (r, 12) or ident_path.origin != p + '.' + q + '.' + r + '[12]':
		return ok(False)
	if path.shift(1).origin != q + '.' + r or path.shift(-1).origin != p + '.' + q:
		return ok(False)
	cover('entry_path')
	return ok(path.contains(q) and path.contains(p + 'x') is False and path.joined(p) == p + '.' + q + '.' + r + '.' + p)


CLASSIFIERS: dict = {}
EXPLAIN = {'relativefy_law': explain_relativefy}
