"""C05 — module graphs on a real (scratch) file system run through the real pipeline with the real on-disk caches.

One run = a brand new App (nothing shared in memory with earlier runs) over a source directory and a cache directory.
Generated module graphs: module j of a graph exports one variable per module of its dependency cone, so that the emitted C++ of j
depends on the (inferred) type of a variable defined in every module of the cone.
"""
import os
import shutil
import tempfile

from vlib import prelude  # noqa: F401  (interpreter shims, sys.path, cwd)

from rogw.tranp.app.app import App
from rogw.tranp.app.dir import tranp_dir
from rogw.tranp.app.env import SourceEnvPath
from rogw.tranp.cache.cache import CacheSetting
from rogw.tranp.i18n.i18n import I18n, TranslationMapping
from rogw.tranp.implements.cpp.providers.i18n import translation_mapping_cpp
from rogw.tranp.implements.cpp.providers.view import renderer_helper_provider_cpp
from rogw.tranp.implements.cpp.transpiler.py2cpp import Py2Cpp
from rogw.tranp.lang.middleware import Middleware
from rogw.tranp.lang.module import to_fullyname
from rogw.tranp.module.modules import Modules
from rogw.tranp.module.types import ModulePath, ModulePaths
from rogw.tranp.transpiler.types import ITranspiler, TranspilerOptions
from rogw.tranp.view.render import Renderer, RendererEmitter, RendererHelperProvider, RendererSetting

def _renderer_setting(i18n: I18n, emitter: RendererEmitter) -> RendererSetting:
	template_dirs = [os.path.join(tranp_dir(), 'data/cpp/template')]
	env = {'immutable_param_types': ['std::string', 'std::vector', 'std::map', 'std::function']}
	return RendererSetting(template_dirs, i18n.t, emitter, env)


def run(srcdir: str, cachedir: str, targets: list, enabled: bool = True) -> dict:
	"""transpile every target module to C++ with a fresh application object"""
	definitions = {
		to_fullyname(SourceEnvPath): lambda: SourceEnvPath.instantiate([srcdir]),
		to_fullyname(CacheSetting): lambda: CacheSetting(basedir=cachedir, enabled=enabled),
		to_fullyname(ModulePaths): lambda: ModulePaths([ModulePath(t, language='py') for t in targets]),
		to_fullyname(ITranspiler): Py2Cpp,
		to_fullyname(Renderer): Renderer,
		to_fullyname(RendererEmitter): Middleware,
		to_fullyname(RendererHelperProvider): renderer_helper_provider_cpp,
		to_fullyname(RendererSetting): _renderer_setting,
		to_fullyname(TranslationMapping): translation_mapping_cpp,
		to_fullyname(TranspilerOptions): lambda: TranspilerOptions(verbose=False, env={}),
	}
	app = App(definitions)
	modules = app.resolve(Modules)
	transpiler = app.resolve(ITranspiler)
	out = {}
	for t in targets:
		try:
			out[t] = transpiler.transpile(modules.load(t).entrypoint)
		except Exception as e:  # noqa: BLE001  "the run rebuilds it or fails"
			out[t] = f'FAILED {type(e).__name__}'
	return out


def run_raising(srcdir: str, cachedir: str, targets: list, enabled: bool = True) -> dict:
	"""like run(), but lets whatever the pipeline raises escape (used by the C07 on-disk obligation)"""
	definitions = {
		to_fullyname(SourceEnvPath): lambda: SourceEnvPath.instantiate([srcdir]),
		to_fullyname(CacheSetting): lambda: CacheSetting(basedir=cachedir, enabled=enabled),
		to_fullyname(ModulePaths): lambda: ModulePaths([ModulePath(t, language='py') for t in targets]),
		to_fullyname(ITranspiler): Py2Cpp,
		to_fullyname(Renderer): Renderer,
		to_fullyname(RendererEmitter): Middleware,
		to_fullyname(RendererHelperProvider): renderer_helper_provider_cpp,
		to_fullyname(RendererSetting): _renderer_setting,
		to_fullyname(TranslationMapping): translation_mapping_cpp,
		to_fullyname(TranspilerOptions): lambda: TranspilerOptions(verbose=False, env={}),
	}
	app = App(definitions)
	modules = app.resolve(Modules)
	transpiler = app.resolve(ITranspiler)
	return {t: transpiler.transpile(modules.load(t).entrypoint) for t in targets}


def strip_meta(text: str) -> str:
	"""the emitted text without the `@tranp.meta` header line (it carries the module hash, which is not behaviour)"""
	return '\n'.join(ln for ln in text.split('\n') if '@tranp.meta' not in ln)


def write(srcdir: str, module: str, content: str, mtime: float) -> None:
	path = os.path.join(srcdir, module.replace('.', os.sep) + '.py')
	os.makedirs(os.path.dirname(path), exist_ok=True)
	with open(path, 'w') as f:
		f.write(content)
	os.utime(path, (mtime, mtime))


from harness.c05_graph import PKG, cone_dist, mod, source_of  # noqa: E402,F401


class World:
	"""a source directory + a persistent ("warm") cache directory; cold outputs are memoised per source state"""

	def __init__(self, edges: dict, n: int) -> None:
		self.edges = edges
		self.n = n
		self.root = tempfile.mkdtemp(prefix='c05w-', dir=prelude.scratch())
		self.src = os.path.join(self.root, 'src')
		self.warm = os.path.join(self.root, 'warm')
		self.clock = 1_700_000_000.0
		self.state = [0] * n
		self.targets = [mod(j) for j in range(n)]
		self.cold_memo: dict = {}
		for j in range(n):
			self.edit(j, 0)

	def edit(self, j: int, variant: int, dt: float = 7.25) -> None:
		self.clock += dt
		self.state[j] = variant
		write(self.src, mod(j), source_of(self.edges, j, variant), self.clock)

	def run_warm(self, enabled: bool = True) -> dict:
		return {k: strip_meta(v) for k, v in run(self.src, self.warm, self.targets, enabled).items()}

	def run_cold(self) -> dict:
		key = tuple(self.state)
		if key not in self.cold_memo:
			cold = tempfile.mkdtemp(prefix='cold-', dir=self.root)
			self.cold_memo[key] = {k: strip_meta(v) for k, v in run(self.src, cold, self.targets, True).items()}
			shutil.rmtree(cold, ignore_errors=True)
		return self.cold_memo[key]

	def clear(self) -> None:
		shutil.rmtree(self.warm, ignore_errors=True)

	def cache_files(self) -> list:
		out = []
		for d, _, files in os.walk(self.warm):
			for f in files:
				if d.endswith(os.sep + PKG) or os.sep + PKG + os.sep in d + os.sep:
					out.append(os.path.join(d, f))
		return sorted(out)

	def close(self) -> None:
		shutil.rmtree(self.root, ignore_errors=True)
