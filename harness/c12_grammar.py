"""C12 — the grammar engine reproduces itself and its compiled rule files.

Real code: Rules.from_ast / ASTSerializer, Prettier, Pattern.make (rule.py), SyntaxParser + gram_rules() + gram_tokenizer(),
gram_check.App.render_rules, the shipped data/syntax/*.lark and *_rules.py.
Symbolic (S): the text of one terminal (lexed symbolically by the real grammar tokenizer; the parser then runs natively on the realised
token list, as in C11). Finite (F): grammar shapes built from slot texts. Closed (C): the fixed points on the shipped files.
"""
import os

from vlib.prelude import ALPHA, CASE, REPO, cover, decode, in_alpha, natively, ok, prefix_ok, shim_rules_keywords

shim_rules_keywords()

from data.syntax.gram_rules import gram_rules  # noqa: E402
from data.syntax.gram_tokenizer import gram_tokenizer  # noqa: E402
from data.syntax.py_rules import py_rules  # noqa: E402
from rogw.tranp.bin import gram_check  # noqa: E402
from rogw.tranp.errors import Errors  # noqa: E402
from rogw.tranp.implements.syntax.tranp.rule import Pattern, Patterns, Prettier, Repeators, Operators, Rules  # noqa: E402
from rogw.tranp.implements.syntax.tranp.syntax import SyntaxParser  # noqa: E402
from rogw.tranp.implements.syntax.tranp.token import Token  # noqa: E402
from rogw.tranp.implements.syntax.tranp.tokenizer import ITokenizer  # noqa: E402

MAXLEN: int = int(CASE.get('n', 3))
_GRAM = gram_rules()
_GRAM.keywords
_GTOK = gram_tokenizer()


class _Fixed(ITokenizer):
	def __init__(self, tokens: list) -> None:
		self.tokens = tokens

	def parse(self, source: str) -> list:
		return self.tokens


def parse_grammar(text: str, tokens=None):
	parser = SyntaxParser(_GRAM, _Fixed(tokens) if tokens is not None else gram_tokenizer())
	return parser.parse(text, 'entry')


# ---------------------------------------------------------------- structural equality of rule sets
def norm(p):
	"""pattern -> nested tuples; groups that change neither language nor trees are folded away:
	a non-repeating AND group with a single entry is that entry, a non-repeating AND group inside one is spliced"""
	if isinstance(p, Pattern):
		return ('p', p.expression, p.role.name, p.comp.name)
	entries = [norm(e) for e in p.entries]
	if p.rep == Repeators.NoRepeat and p.op == Operators.And:
		flat = []
		for e in entries:
			if e[0] == 'g' and e[1] == 'And' and e[2] == 'NoRepeat':
				flat.extend(e[3])
			else:
				flat.append(e)
		if len(flat) == 1:
			return flat[0]
		return ('g', 'And', 'NoRepeat', flat)
	if p.rep == Repeators.NoRepeat and p.op == Operators.Or:
		flat = []
		for e in entries:
			if e[0] == 'g' and e[1] == 'Or' and e[2] == 'NoRepeat':
				flat.extend(e[3])  # (a | (b | c)) is a | b | c: same alternatives in the same order
			else:
				flat.append(e)
		if len(flat) == 1:
			return flat[0]
		return ('g', 'Or', 'NoRepeat', flat)
	return ('g', p.op.name, p.rep.name, entries)


def rules_norm(rules: Rules) -> list:
	return [(sym, norm(rules[sym.split('[')[0]])) for sym in rules.org_symbols()]


def round_trip_ok(text: str, tokens=None) -> bool:
	"""parse the grammar text, print the rules, parse the printout: equal rule sets"""
	r1 = Rules.from_ast(parse_grammar(text, tokens).simplify())
	printed = r1.pretty() + '\n'
	r2 = Rules.from_ast(parse_grammar(printed).simplify())
	if rules_norm(r1) != rules_norm(r2):
		return False
	# printing is a fixed point after one round
	return r2.pretty() + '\n' == printed


# ---------------------------------------------------------------- O1 / O3 terminals with symbolic text
KIND: str = CASE.get('kind', 'string')  # string | regexp


def terminal_text_ok(t: str) -> bool:
	"""inside the terminal domains of gram.lark: string /"[^"]+"/, regexp /[\\/].+[\\/]/ (one line, no unescaped delimiter inside)"""
	if len(t) == 0 or chr(10) in t:
		return False
	if KIND == 'string':
		return '"' not in t
	# a regexp body: every '/' escaped, no trailing lone backslash
	i = 0
	while i < len(t):
		if t[i] == chr(92):
			if i + 1 >= len(t):
				return False
			i += 2
			continue
		if t[i] == '/':
			return False
		i += 1
	return True


def realise(tokens: list) -> list:
	from crosshair.core import realize
	from crosshair.tracers import is_tracing
	if not is_tracing():
		return tokens
	return [Token(tk.type, realize(tk.string), Token.SourceMap(*[realize(x) for x in tk.source_map])) for tk in tokens]


def realise_str(s: str) -> str:
	from crosshair.core import realize
	from crosshair.tracers import is_tracing
	return realize(s) if is_tracing() else s


def check_terminal(text: str, tokens: list, t: str) -> bool:
	tree = parse_grammar(text, tokens)
	rules = Rules.from_ast(tree.simplify())
	pat = rules['x']
	if not isinstance(pat, Pattern):
		return False
	# the rule set is known by construction: one terminal whose expression is the text between the delimiters
	# (a two-character \\t \\f \\r \\n string stands for that control character)
	codes = {'t': chr(9), 'f': chr(12), 'r': chr(13), 'n': chr(10)}
	expected = codes[t[1]] if KIND == 'string' and len(t) == 2 and t[0] == chr(92) and t[1] in codes else t
	if pat.expression != expected or pat.role.name != 'Terminal' or pat.comp.name != ('Equals' if KIND == 'string' else 'Regexp'):
		return False
	# Pattern.make(pretty(p)) gives p back (control-code restoration included)
	again = Pattern.make(Prettier._pretty_pattern(pat))
	if (again.expression, again.role, again.comp) != (pat.expression, pat.role, pat.comp):
		return False
	if not round_trip_ok(text, tokens):
		return False
	# O3: the rule-file renderer escapes the tree so that the emitted module denotes the same tree
	app = gram_check.App.__new__(gram_check.App)
	app.args = type('A', (), {'output': 'x_rules.py', 'input': ''})()
	rendered = app.render_rules(tree)
	ns: dict = {}
	exec(rendered, ns)  # the rendered text is the module tranp itself would write and import
	compiled = ns['x_rules']()
	return rules_norm(compiled) == rules_norm(rules)


def terminal_law(t: str) -> bool:
	"""
	pre: len(t) <= MAXLEN
	pre: in_alpha(t)
	pre: prefix_ok(t)
	pre: terminal_text_ok(t)
	post: _
	"""
	q = '"' if KIND == 'string' else '/'
	text = 'x := ' + q + t + q + '\n'
	tokens = _GTOK.parse(text)  # symbolic: the real grammar tokenizer decides where the terminal ends
	if chr(92) in t:
		cover('backslash')
	conc = realise(tokens)
	return ok(natively(check_terminal, realise_str(text), conc, realise_str(t)))


def explain_terminal(t: str) -> str:
	q = '"' if KIND == 'string' else '/'
	text = 'x := ' + q + t + q + '\n'
	try:
		r1 = Rules.from_ast(parse_grammar(text).simplify())
		return f'grammar {text!r}: rules {rules_norm(r1)!r}; printed {r1.pretty()!r}'
	except Exception as e:  # noqa: BLE001
		return f'grammar {text!r}: {type(e).__name__}: {str(e)[:200]}'


# ---------------------------------------------------------------- O2 grammar shapes (finite)
SLOTS = ['a', '"x"', '/r+/', '(a b)', '(a | b)', '(a | b)*', '(a b)+', '[a]', '[a | b]', '(a)?', '((a | b) c)*', '[a (b | c)]', '(a (b | c))', '("x" | /r+/)+']
RULE_TEMPLATES = [
	'x := {0}',
	'x := {0} {1}',
	'x := {0} | {1}',
	'x := {0} {1} | {2}',
	'x := ({0} | {1}) {2}',
	'x := {0} ({1} | {2})',
	'x := [{0} {1}] {2}',
	'x := ({0} {1})* | {2}',
]
HEADS = ['x', 'x[1]', 'x[*]']
TAIL = 'a := "k"\nb := "l"\nc := /m+/\n'
TEMPLATE: int = int(CASE.get('template', 0))
WORDS = ['k', 'l', 'm', 'mm', 'x', 'r', 'rr']


def shape_text(s0: int, s1: int, s2: int, head: int) -> str:
	body = RULE_TEMPLATES[TEMPLATE].format(SLOTS[s0], SLOTS[s1], SLOTS[s2])
	return HEADS[head] + body[1:] + '\n' + TAIL


def sentences() -> list:
	out = []
	for w1 in WORDS:
		out.append(w1)
		for w2 in WORDS[:5]:
			out.append(f'{w1} {w2}')
	out += ['k l m', 'x r k', 'k k k', 'l m x', 'k x l m']
	return out


def outcome(rules: Rules, sentence: str):
	try:
		return SyntaxParser(rules).parse(sentence, 'x').simplify()
	except Errors.Syntax:
		return 'syntax error'


def check_shape(s0: int, s1: int, s2: int, head: int, with_sentences: bool) -> bool:
	text = shape_text(s0, s1, s2, head)
	r1 = Rules.from_ast(parse_grammar(text).simplify())
	printed = r1.pretty() + '\n'
	r2 = Rules.from_ast(parse_grammar(printed).simplify())
	if rules_norm(r1) != rules_norm(r2):
		return False
	if r2.pretty() + '\n' != printed:
		return False
	cover('round_trip')
	if with_sentences:
		for s in sentences():
			if outcome(r1, s) != outcome(r2, s):
				return False
		cover('sentences')
	return True


NSLOTS: int = int(CASE.get('nslots', len(SLOTS)))
SENTENCES: bool = bool(CASE.get('sentences', False))


def shape_law(s0: int, s1: int, s2: int, head: int) -> bool:
	"""
	pre: 0 <= s0 < NSLOTS and 0 <= s1 < NSLOTS and 0 <= s2 < NSLOTS and 0 <= head < 3
	pre: RULE_TEMPLATES[TEMPLATE].count('{') > 2 or s2 == 0
	pre: RULE_TEMPLATES[TEMPLATE].count('{') > 1 or s1 == 0
	post: _
	"""
	return ok(natively(check_shape, decode(s0, NSLOTS), decode(s1, NSLOTS), decode(s2, NSLOTS), decode(head, 3), SENTENCES))


def explain_shape(s0: int, s1: int, s2: int, head: int) -> str:
	text = shape_text(s0, s1, s2, head)
	r1 = Rules.from_ast(parse_grammar(text).simplify())
	printed = r1.pretty()
	try:
		r2n = rules_norm(Rules.from_ast(parse_grammar(printed + '\n').simplify()))
	except Exception as e:  # noqa: BLE001
		r2n = f'{type(e).__name__}: {str(e)[:150]}'
	return f'grammar {text.splitlines()[0]!r} prints as {printed.splitlines()[0]!r}; rules {rules_norm(r1)[0]!r} vs reparsed {r2n[0] if isinstance(r2n, list) else r2n!r}'


# ---------------------------------------------------------------- O4 / O5 closed obligations on the shipped files
def read(rel: str) -> str:
	with open(os.path.join(REPO, rel), 'rb') as f:
		return f.read().decode('utf-8')


def render(lark_rel: str, output_name: str) -> str:
	app = gram_check.App.__new__(gram_check.App)
	app.args = type('A', (), {'output': output_name, 'input': lark_rel})()
	app.parser = SyntaxParser(gram_rules(), gram_tokenizer())
	return app.render_rules(app.parser.parse(read(lark_rel), 'entry'))


def fixed_points_closed() -> bool:
	# the meta-grammar file parsed with the built-in rules yields those same rules
	meta = Rules.from_ast(parse_grammar(read('data/syntax/gram.lark')).simplify())
	if rules_norm(meta) != rules_norm(gram_rules()):
		return ok(False)
	cover('meta_fixed_point')
	# compiling each shipped grammar yields exactly the rule module checked in next to it
	# (compared from the `Rules.from_ast(` call on: the checked-in gram_rules.py carries a hand-written docstring in front of it)
	def payload(text: str) -> str:
		return text[text.index('Rules.from_ast('):].rstrip()
	if payload(render('data/syntax/gram.lark', 'data/syntax/gram_rules.py')) != payload(read('data/syntax/gram_rules.py')):
		return ok(False)
	if payload(render('data/syntax/py_gram.lark', 'data/syntax/py_rules.py')) != payload(read('data/syntax/py_rules.py')):
		return ok(False)
	cover('compiled_files')
	# printing the shipped rule sets and parsing the printout gives them back
	for rules in (gram_rules(), py_rules()):
		printed = rules.pretty() + '\n'
		again = Rules.from_ast(parse_grammar(printed).simplify())
		if rules_norm(again) != rules_norm(rules):
			return ok(False)
	cover('shipped_round_trip')
	return ok(True)


def explain_fixed_points() -> str:
	a = render('data/syntax/py_gram.lark', 'data/syntax/py_rules.py')
	b = read('data/syntax/py_rules.py')
	if a != b:
		la, lb = a.split('\n'), b.split('\n')
		for i, (x, y) in enumerate(zip(la, lb)):
			if x != y:
				return f'compiled py_gram.lark differs from py_rules.py at line {i + 1}: {x!r} vs {y!r}'
	return 'see obligations: meta fixed point / gram_rules.py / shipped round trip'


CLASSIFIERS: dict = {}
EXPLAIN = {'terminal_law': explain_terminal, 'shape_law': explain_shape, 'fixed_points_closed': explain_fixed_points}
