"""C15 — the stored form of a syntax tree restores an identical tree.

Real code: Serialization.dumps/loads, EntryOfLark views (rogw/tranp/implements/syntax/lark/entry.py), EntryStored.save/load
(parser.py, JSON text layer), ASTFinder.full_pathfy.
Symbolic (S): the name/value strings and the eight position integers of one token slot and one tree slot (unbounded, may be 0),
presence flags (positions missing, meta.empty). Case split (F): tree shape and where the symbolic slots sit.
"""
import io

import lark

from vlib.prelude import CASE, cover, ok

from rogw.tranp.implements.syntax.lark.entry import EntryOfLark, Serialization
from rogw.tranp.implements.syntax.lark.parser import EntryStored
from rogw.tranp.syntax.ast.finder import ASTFinder

SHAPE: int = int(CASE.get('shape', 0))
MAXLEN: int = int(CASE.get('n', 2))
VALUE_ALPHA: str = CASE.get('value_alpha', 'a"' + chr(92))
NAME_ALPHA: str = CASE.get('name_alpha', 'Tc')


def mk_token(name: str, value: str, pos) -> lark.Token:
	t = lark.Token(name, value)
	if pos is not None:
		t.line, t.column, t.end_line, t.end_column = pos
	return t


def mk_tree(name: str, children: list, pos, empty: bool) -> lark.Tree:
	meta = lark.tree.Meta()
	if pos is not None:
		meta.line, meta.column, meta.end_line, meta.end_column = pos
		meta.empty = empty
	return lark.Tree(name, children, meta)


def fixed_token(i: int) -> lark.Token:
	return mk_token('NAME', f'v{i}', (i + 1, 1, i + 1, 3))


def build(shape: int, sym_token: lark.Token, sym_tree_of) -> lark.Tree:
	"""shape family (<= 3 levels, <= 7 entries): the symbolic token / symbolic tree sit at different places;
	sym_tree_of(children) builds the symbolic tree slot around the given children"""
	if shape == 0:  # root is the symbolic tree; children: symbolic token, empty slot, fixed token
		return sym_tree_of([sym_token, None, fixed_token(0)])
	if shape == 1:  # symbolic tree without children under a fixed root, next to the symbolic token
		return mk_tree('file_input', [sym_tree_of([]), sym_token], (1, 1, 9, 1), False)
	if shape == 2:  # three levels: root -> symbolic tree -> [empty, subtree -> symbolic token]
		inner = mk_tree('block', [sym_token, fixed_token(1)], (2, 1, 3, 1), False)
		return mk_tree('file_input', [fixed_token(0), sym_tree_of([None, inner]), None], (1, 1, 9, 1), False)
	if shape == 3:  # symbolic token twice (same object shared), symbolic tree holding only an empty slot
		return mk_tree('file_input', [sym_token, sym_tree_of([None]), sym_token], (1, 1, 9, 1), False)
	if shape == 4:  # root whose meta was never filled (lark.tree.Meta() default) around the symbolic slots
		return lark.Tree('file_input', [sym_tree_of([sym_token])])
	raise AssertionError(shape)


def view_equal(a: EntryOfLark, b: EntryOfLark) -> bool:
	"""field by field, recursively, through the public Entry interface"""
	if a.name != b.name or a.value != b.value or a.is_empty != b.is_empty or a.has_child != b.has_child or a.is_terminal != b.is_terminal:
		return False
	if a.source_map != b.source_map:
		return False
	ca, cb = a.children, b.children
	if len(ca) != len(cb):
		return False
	for x, y in zip(ca, cb):
		if not view_equal(x, y):
			return False
	return True


def nonneg(*vals: int) -> bool:
	return all(v >= 0 for v in vals)


def short(*strs: str) -> bool:
	return all(len(s) <= MAXLEN for s in strs)


def check_round_trip(tname, tvalue, tpos, tl, tc, tel, tec, rname, rpos, rempty, rl, rc, rel, rec, with_paths: bool = True) -> bool:
	token = mk_token(tname, tvalue, (tl, tc, tel, tec) if tpos else None)
	tree = build(SHAPE, token, lambda children: mk_tree(rname, children, (rl, rc, rel, rec) if rpos else None, rempty))
	fresh = EntryOfLark(tree)
	dumped = Serialization.dumps(tree)
	restored_tree = Serialization.loads(dumped)
	restored = EntryOfLark(restored_tree)
	# O1 field by field
	if not view_equal(fresh, restored):
		return False
	# walking the restored tree a second time gives the same answer (children must be a real list, not a one-shot iterator)
	if not view_equal(fresh, EntryOfLark(restored_tree)):
		return False
	# O2 same full paths in the same order (skipped when the names are symbolic: paths are dict keys, hashing realises them)
	if with_paths:
		finder = ASTFinder()
		if list(finder.full_pathfy(fresh).keys()) != list(finder.full_pathfy(restored).keys()):
			return False
	# O3 idempotence: dumping the restored tree gives the first dump
	return Serialization.dumps(restored_tree) == dumped


def round_trip_positions(tpos: bool, tl: int, tc: int, tel: int, tec: int, rpos: bool, rempty: bool, rl: int, rc: int, rel: int, rec: int) -> bool:
	"""
	pre: nonneg(tl, tc, tel, tec, rl, rc, rel, rec)
	post: _
	"""
	if not tpos:
		cover('token_without_position')
	if rpos and rempty:
		cover('meta_empty')
	if tpos and tl > 0 and tc > 0 and tel > 0 and tec > 0:
		cover('token_position_kept')
	return ok(check_round_trip('NAME', 'v', tpos, tl, tc, tel, tec, 'block', rpos, rempty, rl, rc, rel, rec))


def round_trip_names(tname: str, tvalue: str, rname: str) -> bool:
	"""
	pre: short(tvalue) and len(tname) == 1 and len(rname) == 1
	pre: all(c in VALUE_ALPHA for c in tvalue) and tname in NAME_ALPHA and rname in NAME_ALPHA
	post: _
	"""
	# lark.Token is a str subclass: constructing it realises the symbolic strings, so the alphabets are small and explicit
	if tvalue == '':
		cover('empty_value')
	if tname == rname:
		cover('same_names')
	return ok(check_round_trip(tname, tvalue, True, 2, 3, 2, 5, rname, True, False, 1, 1, 4, 1, with_paths=False))


def round_trip(tname: str, tvalue: str, tpos: bool, tl: int, tc: int, tel: int, tec: int, rname: str, rpos: bool, rempty: bool, rl: int, rc: int, rel: int, rec: int) -> bool:
	"""plain (replay / regression witness) entry with every slot given"""
	return check_round_trip(tname, tvalue, tpos, tl, tc, tel, tec, rname, rpos, rempty, rl, rc, rel, rec)


def explain_round_trip(*a) -> str:
	tname, tvalue, tpos, tl, tc, tel, tec, rname, rpos, rempty, rl, rc, rel, rec = a
	token = mk_token(tname, tvalue, (tl, tc, tel, tec) if tpos else None)
	tree = build(SHAPE, token, lambda children: mk_tree(rname, children, (rl, rc, rel, rec) if rpos else None, rempty))
	dumped = Serialization.dumps(tree)
	return f'shape {SHAPE}: dumps = {dumped!r}; dumps(loads(dumps)) = {Serialization.dumps(Serialization.loads(dumped))!r}'


# ---------------------------------------------------------------- JSON text layer (closed: the stdlib codec runs on concrete representatives)
REPRESENTATIVE_STRINGS = ['', 'a', '"', "'", '\\', '\n', '\t', 'é', '日本', ' ', '{"children":[]}', 'value', 'children', 'a\\"b', '\x00', '</', ' ', 'a\r\nb', '"""x\r\ny"""', '\r', '\u2028']


def json_layer_closed() -> bool:
	"""EntryStored.save -> bytes -> EntryStored.load for every shape with representative names/values (quotes, backslashes,
	control characters, non-ASCII, strings that look like the encoding's own keys) and positions (0, 1, large)"""
	for shape in range(5):
		for i, s in enumerate(REPRESENTATIVE_STRINGS):
			for pos in (None, (1, 1, 1, 2), (0, 0, 0, 0), (3, 7, 12, 2 ** 40)):
				token = mk_token(s or 'T', REPRESENTATIVE_STRINGS[-(i + 1)], pos)
				tree = build(shape, token, lambda children: mk_tree(s or 'r', children, pos, i % 2 == 0))
				buf = io.BytesIO()
				EntryStored(EntryOfLark(tree)).save(buf)
				cover('json_round_trip')
				buf.seek(0)
				loaded = EntryStored.load(buf)
				if not view_equal(EntryOfLark(tree), loaded.entry):  # type: ignore
					return ok(False)
	return ok(True)


def truncation_closed() -> bool:
	"""C05 sentence 3 at this layer: a cache file cut at any offset never loads successfully with other content
	(it raises, or - only for the complete file - equals the original)"""
	for shape in range(5):
		token = mk_token('NAME', 'ab"c', (1, 2, 1, 6))
		tree = build(shape, token, lambda children: mk_tree('block', children, (1, 1, 2, 1), False))
		buf = io.BytesIO()
		EntryStored(EntryOfLark(tree)).save(buf)
		data = buf.getvalue()
		for cut in range(len(data)):
			cover('cut')
			try:
				loaded = EntryStored.load(io.BytesIO(data[:cut]))
			except Exception:  # noqa: BLE001  (any failure makes the caller rebuild or fail: allowed)
				continue
			if not view_equal(EntryOfLark(tree), loaded.entry):  # type: ignore
				return ok(False)
	return ok(True)


CLASSIFIERS: dict = {}
EXPLAIN = {'round_trip': explain_round_trip,
	'round_trip_positions': lambda *a: explain_round_trip('NAME', 'v', *a[:5], 'block', *a[5:]),
	'round_trip_names': lambda tname, tvalue, rname: explain_round_trip(tname, tvalue, True, 2, 3, 2, 5, rname, True, False, 1, 1, 4, 1)}
