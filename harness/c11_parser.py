"""C11 — the self-hosted parser builds the trees CPython builds.

Real code: Tokenizer/Lexer (symbolic), SyntaxParser._match_* / _unwrap_children / ErrorCollector, Rules (py_rules()).
Staging (measured, DESIGN.md C11): the lexer runs on the symbolic buffer; the token list is realised at the lexer/parser boundary and the
parser runs natively on it (every terminal comparison is a regex: symbolic token strings do not close). CPython's ast is the oracle
through harness/c11_canon.py.  O3 is an explicitly finite case split over operator / keyword / statement slots of derivable sentences.
"""
from vlib.prelude import ALPHA, CASE, cover, decode, in_alpha, natively, ok, prefix_ok, shim_rules_keywords

shim_rules_keywords()

from data.syntax.py_rules import py_rules  # noqa: E402
from rogw.tranp.errors import Errors  # noqa: E402
from rogw.tranp.implements.syntax.tranp.syntax import ErrorCollector, SyntaxParser  # noqa: E402
from rogw.tranp.implements.syntax.tranp.token import Token, TokenTypes  # noqa: E402
from rogw.tranp.implements.syntax.tranp.tokenizer import ITokenizer, Tokenizer  # noqa: E402

from harness import c11_canon as canon  # noqa: E402

MAXLEN: int = int(CASE.get('n', 4))
_RULES = py_rules()
_RULES.keywords  # computed once, outside tracing
_TOKENIZER = Tokenizer()


class _Fixed(ITokenizer):
	def __init__(self, tokens: list) -> None:
		self.tokens = tokens

	def parse(self, source: str) -> list:
		return self.tokens


def summary_ok(message: str, source: str, token_strings: list) -> bool:
	"""'pass: i/n, token: <repr>' names a token of the input; '(N) >>> text' quotes line N of the source"""
	lines = message.split('\n')
	src_lines = source.split('\n')
	named = False
	quoted = False
	for ln in lines:
		if 'token: ' in ln:
			lit = ln.split('token: ', 1)[1]
			named = any(lit == repr(t) for t in token_strings) or any(lit == repr(c) for c in source)
		if ln.startswith('(') and ') >>> ' in ln:
			no = ln[1:ln.index(')')]
			text = ln.split(') >>> ', 1)[1]
			quoted = no.isdigit() and 1 <= int(no) <= len(src_lines) and src_lines[int(no) - 1] == text
	return named and quoted


def check_parse(source: str, tokens: list | None) -> bool:
	"""native part: parse the realised token list, compare with CPython, exercise the error collector"""
	token_strings = [t.string for t in tokens] if tokens is not None else []
	src_lines = source.split('\n')
	if tokens is not None:
		# C16-O4: the error collector can quote every step without failing; for a token with a real span the quoted line is
		# that line of the source and the mark starts inside it (synthesised EOF tokens carry span -1: only "does not raise")
		for steps in range(len(tokens)):
			text = ErrorCollector(source, tokens, steps).summary()
			sm = tokens[steps].source_map
			if sm.begin_line >= 0:
				quoted = [ln for ln in text.split('\n') if ln.startswith(f'({sm.begin_line + 1}) >>> ')]
				if len(quoted) != 1 or quoted[0].split(') >>> ', 1)[1] != src_lines[sm.begin_line]:
					return False
				mark = text.split('\n')[-1]
				if '^' not in mark or sm.begin_column > len(src_lines[sm.begin_line]):
					return False
	has_token = any(t.type not in (TokenTypes.NewLine, TokenTypes.Indent, TokenTypes.Dedent) for t in tokens) if tokens is not None else True
	parser = SyntaxParser(_RULES, _Fixed(tokens)) if tokens is not None else SyntaxParser(_RULES)
	try:
		tree = parser.parse(source, 'entry')
	except Errors.Syntax as e:
		cover('rejected')
		if not has_token:
			return True  # blank / comment-only text: there is no token and no line to name
		return summary_ok(str(e.args[0]), source, token_strings)
	cover('accepted')
	try:
		want = canon.canon_python(source)
	except SyntaxError:
		cover('cpython_rejects')
		return True  # accepted by the shipped grammar but not Python (e.g. "a = 1 2" cannot happen; "def f() -> :" can): nothing to compare
	except canon.Unsupported:
		return True
	try:
		got = canon.canon_tranp(tree.simplify())
	except canon.Unsupported:
		return True
	cover('compared')
	return got == want


def realise_tokens(tokens: list) -> list:
	from crosshair.core import realize
	from crosshair.tracers import is_tracing
	if not is_tracing():
		return tokens
	return [Token(t.type, realize(t.string), Token.SourceMap(*[realize(x) for x in t.source_map])) for t in tokens]


def realise_str(s: str) -> str:
	from crosshair.core import realize
	from crosshair.tracers import is_tracing
	return realize(s) if is_tracing() else s


def buffer_law(source: str) -> bool:
	"""
	pre: 1 <= len(source) <= MAXLEN
	pre: in_alpha(source)
	pre: prefix_ok(source)
	post: _
	"""
	try:
		tokens = _TOKENIZER.parse(source)  # symbolic: the real lexer / structure rebuild decide the token list
	except Errors.Syntax as e:
		cover('lexer_rejected')
		src = realise_str(source)
		return ok(natively(summary_ok, str(e.args[0]), src, []))
	conc = realise_tokens(tokens)
	src = realise_str(source)
	return ok(natively(check_parse, src, conc))


def explain_buffer(source: str) -> str:
	try:
		tree = SyntaxParser(_RULES).parse(source, 'entry')
	except Exception as e:  # noqa: BLE001
		return f'parse({source!r}) raises {type(e).__name__}: {str(e)[:300]}'
	try:
		want = canon.canon_python(source)
	except Exception as e:  # noqa: BLE001
		want = f'{type(e).__name__}'
	return f'parse({source!r}) -> {canon.canon_tranp(tree.simplify())!r}; CPython -> {want!r}'


# ---------------------------------------------------------------- O3 operator / keyword / statement slots (finite)
BINOPS = ['+', '-', '*', '/', '%', '<', '>', '==', '<=', '>=', '!=', 'in', 'not in', 'is', 'is not', 'and', 'or']
SIMPLE = ['break', 'continue', '...', 'return', 'return a', 'raise E(a)', 'x = a', 'x.y = a', 'x[0] = a', 'f(a)']
EXPR_TEMPLATES = [
	'a {0} b {1} c',
	'not a {0} b {1} c',
	'-a {0} -b {1} c',
	'x = a {0} (b {1} c)',
	'(a {0} b) {1} c',
	'x if a {0} b else c {1} d',
	'lambda n: a {0} b {1} n',
	'(x := a {0} b {1} c)',
	'f(k=a {0} b, *c, **d)[a {1} b].e',
	'[a {0} b, (c, d {1} e), {{"k": a {0} b}}]',
	'x[a {0} b:c {1} d] = y',
	'lambda: a {0} b {1} c',
	'f(lambda: a {0} b, lambda x, y: x {1} y)',
]
# atoms whose spelling is close to a keyword / another terminal class (every one is a NAME, NUMBER or STRING for CPython)
ATOMS = ['a', '_a1', '0', '10', '0.5', '1.25', '10.0', '"s"', "'s'", 'True', 'False', 'None', 'Falsey', 'Truex', 'Nonex', 'nota', 'inx', 'isx', 'orx', 'andy', 'ifx', 'elsex', 'lambdax', 'returnx', 'xin', 'xor']
ATOM_TEMPLATES = ['x = {0} + {1}', 'f({0}, k={1})', '{0} if {1} else {0}', '[{0}, {1}]', 'x = {0} < {1}', 'return {0}']
# operator spellings the shipped grammar does not have: these sentences are outside the grammar and must be rejected
NON_OPS = ['<<', '>>', '**', '//', '&', '|', '^', '<>', '=>', '=<', '!', '~', '===', '<==', '->', ':', '?', '@']
STMT_TEMPLATES = [
	'if a {0} b:\n  {2}\nelif c {1} d:\n  {3}\nelse:\n  {2}\n',
	'if a {0} b:\n  if c {1} d:\n    {2}\n  {3}\n{2}\n',
	'while a {0} b:\n  {2}\n  {3}\n',
	'for i, j in x.y(a {0} b):\n  {2}\n{3}\n',
	'def f(p: int = a {0} b, q: T = c {1} d) -> None:\n  {2}\n  {3}\n',
	'def f() -> T:\n  for i in x:\n    {2}\n  {3}\n',
]
TEMPLATE: int = int(CASE.get('template', 0))
STMT: bool = bool(CASE.get('stmt', False))
NSIMPLE: int = int(CASE.get('nsimple', 0)) or len(SIMPLE)


def template_sentence(o1: int, o2: int, s1: int, s2: int) -> str:
	if STMT:
		# statement templates: one operator slot pair is tied (o2 follows o1 cyclically) to keep the product at 17 x 10 x 10
		return STMT_TEMPLATES[TEMPLATE].format(BINOPS[o1], BINOPS[(o1 + 5) % len(BINOPS)], SIMPLE[s1], SIMPLE[s2])
	return EXPR_TEMPLATES[TEMPLATE].format(BINOPS[o1], BINOPS[o2])


def check_template(o1: int, o2: int, s1: int, s2: int) -> bool:
	source = template_sentence(o1, o2, s1, s2)
	try:
		tree = SyntaxParser(_RULES).parse(source, 'entry')
	except Errors.Syntax:
		return False  # derivable by construction: must be accepted
	try:
		want = canon.canon_python(source)
	except SyntaxError:
		cover('cpython_rejects')  # e.g. break outside a loop is fine for ast.parse; a real SyntaxError means the template is not Python
		return True
	cover('compared')
	return canon.canon_tranp(tree.simplify()) == want


def check_atoms(t: int, a: int, b: int) -> bool:
	source = ATOM_TEMPLATES[t].format(ATOMS[a], ATOMS[b])
	try:
		tree = SyntaxParser(_RULES).parse(source, 'entry')
	except Errors.Syntax:
		return False
	cover('compared')
	return canon.canon_tranp(tree.simplify()) == canon.canon_python(source)


def atoms_law(t: int, a: int, b: int) -> bool:
	"""
	pre: 0 <= t < len(ATOM_TEMPLATES) and 0 <= a < len(ATOMS) and 0 <= b < len(ATOMS)
	pre: TEMPLATE < 0 or t == TEMPLATE
	post: _
	"""
	return ok(natively(check_atoms, decode(t, len(ATOM_TEMPLATES)), decode(a, len(ATOMS)), decode(b, len(ATOMS))))


def explain_atoms(t: int, a: int, b: int) -> str:
	return explain_buffer(ATOM_TEMPLATES[t].format(ATOMS[a], ATOMS[b]))


def check_reject(o: int, shape: int) -> bool:
	source = ['a {0} b', 'x = a {0} b + c', 'f(a {0} b)', 'if a {0} b:\n  c\n'][shape].format(NON_OPS[o])
	try:
		SyntaxParser(_RULES).parse(source, 'entry')
	except Errors.Syntax as e:
		cover('rejected')
		return summary_ok(str(e.args[0]), source, [t.string for t in Tokenizer().parse(source)])
	return False  # accepted although no derivation exists


def reject_law(o: int, shape: int) -> bool:
	"""
	pre: 0 <= o < len(NON_OPS) and 0 <= shape < 4
	post: _
	"""
	return ok(natively(check_reject, decode(o, len(NON_OPS)), decode(shape, 4)))


def explain_reject(o: int, shape: int) -> str:
	return explain_buffer(['a {0} b', 'x = a {0} b + c', 'f(a {0} b)', 'if a {0} b:\n  c\n'][shape].format(NON_OPS[o])) + ' (must be rejected with Errors.Syntax)'


def template_law(o1: int, o2: int, s1: int, s2: int) -> bool:
	"""
	pre: 0 <= o1 < len(BINOPS) and 0 <= o2 < (1 if STMT else len(BINOPS))
	pre: 0 <= s1 < (NSIMPLE if STMT else 1) and 0 <= s2 < (NSIMPLE if STMT else 1)
	post: _
	"""
	return ok(natively(check_template, decode(o1, len(BINOPS)), decode(o2, len(BINOPS)), decode(s1, len(SIMPLE)), decode(s2, len(SIMPLE))))


def explain_template(o1: int, o2: int, s1: int, s2: int) -> str:
	return explain_buffer(template_sentence(o1, o2, s1, s2))


CLASSIFIERS: dict = {}
EXPLAIN = {'buffer_law': explain_buffer, 'template_law': explain_template, 'atoms_law': explain_atoms, 'reject_law': explain_reject}


# ---------------------------------------------------------------- one parser object, several texts
REUSE_TEXTS = ['x = 1', 'x = = 1', 'x = y = 1', 'z = 2', 'y = f(2)', 'if a:\n\tb = 1', 'if a\n\tb = 1', 'f(', 'x = (1', 'def f(a: int) -> int:\n\treturn a', 'return -1', 'x = 1 +', 'a.b[0](c)']


def outcome_of(parser, text: str):
	try:
		return ('tree', repr(parser.parse(text, 'entry').simplify()))
	except Errors.Syntax:
		return ('syntax-error',)


def check_reuse(i: int, j: int) -> bool:
	"""the answer for a text does not depend on what the same parser object parsed (or rejected) before"""
	fresh = outcome_of(SyntaxParser(_RULES), REUSE_TEXTS[j])
	parser = SyntaxParser(_RULES)
	first = outcome_of(parser, REUSE_TEXTS[i])
	cover('after_rejected' if first[0] == 'syntax-error' else 'after_accepted')
	second = outcome_of(parser, REUSE_TEXTS[j])
	third = outcome_of(parser, REUSE_TEXTS[j])
	return second == fresh and third == fresh


def reuse_law(i: int, j: int) -> bool:
	"""
	pre: 0 <= i < len(REUSE_TEXTS) and 0 <= j < len(REUSE_TEXTS)
	post: _
	"""
	return ok(natively(check_reuse, decode(i, len(REUSE_TEXTS)), decode(j, len(REUSE_TEXTS))))


EXPLAIN['reuse_law'] = lambda i, j: f'one SyntaxParser object: after {REUSE_TEXTS[i]!r} the text {REUSE_TEXTS[j]!r} gives {outcome_of(_after(i), REUSE_TEXTS[j])!r}, a fresh parser gives {outcome_of(SyntaxParser(_RULES), REUSE_TEXTS[j])!r}'


def _after(i: int):
	p = SyntaxParser(_RULES)
	outcome_of(p, REUSE_TEXTS[i])
	return p
