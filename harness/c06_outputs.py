"""C06 — non-forced runs leave every output equal to a forced run (header and path sentences).

Real code: MetaHeader.to_header_str / try_from_content / from_json / __eq__ / identity (data/meta/header.py), the first line of
data/cpp/template/block/entrypoint.j2, Runner.can_transpile / try_load_meta_header / output_filepath / fetch_output_path (bin/transpile.py).
Symbolic (S): the JSON text of the header and the rest of the output file; two module paths. (F): which header component changed.
`json` inside header.py is a nondeterministic codec stub for the symbolic obligation (CrossHair does not close json on symbolic
strings, DESIGN.md C06): dumps returns the arbitrary single-line text J, loads records what it is handed.
"""
import os

from vlib.prelude import ALPHA, CASE, REPO, cover, decode, in_alpha, natively, ok, prefix_ok

import typing, typing_extensions  # noqa: E401
typing.TypeIs = typing_extensions.TypeIs  # type: ignore

from rogw.tranp.bin.transpile import Runner  # noqa: E402
from rogw.tranp.data.meta import header as header_module  # noqa: E402
from rogw.tranp.data.meta.header import MetaHeader  # noqa: E402
from rogw.tranp.module.types import ModulePath  # noqa: E402

MAXLEN: int = int(CASE.get('n', 5))
with open(os.path.join(REPO, 'data/cpp/template/block/entrypoint.j2'), encoding='utf-8') as _f:
	FIRST_LINE = _f.read().split('\n')[0]  # '// {{ meta_header }}'
PREFIX = FIRST_LINE.split('{{')[0]


class _JsonStub:
	"""json as seen by header.py: dumps -> the arbitrary text J, loads -> records its argument"""

	def __init__(self) -> None:
		self.text = ''
		self.received: list = []

	def dumps(self, obj, **kw) -> str:
		return self.text

	def loads(self, s: str):
		self.received.append(s)
		return {'module': {'hash': 'h', 'path': 'p'}, 'transpiler': {'version': 'v', 'module': 'm'}, 'version': 'a'}


def json_text_ok(j: str) -> bool:
	"""contract of json.dumps(dict, separators=(',', ':')): one line, starts with { and ends with }"""
	return len(j) >= 2 and j[0] == '{' and j[-1] == '}' and chr(10) not in j and chr(13) not in j


def header_law(j: str, rest: str) -> bool:
	"""
	pre: len(j) <= MAXLEN and len(rest) <= 3
	pre: in_alpha(j) and in_alpha(rest)
	pre: json_text_ok(j)
	post: _
	"""
	stub = _JsonStub()
	stub.text = j
	real_json = header_module.json
	header_module.json = stub  # type: ignore
	try:
		h = MetaHeader({'hash': 'h', 'path': 'p'}, {'version': 'v', 'module': 'm'}, 'a')  # type: ignore
		content = PREFIX + h.to_header_str() + chr(10) + '#pragma once' + chr(10) + rest
		if '}' in rest:
			cover('brace_after_header')
		if '}' in j[1:-1]:
			cover('brace_inside_header')
		got = MetaHeader.try_from_content(content)
	finally:
		header_module.json = real_json  # type: ignore
	# the header written into an output is read back to the same value: the decoder receives exactly the encoder's text
	# (one leading blank - the one after the colon - is handed over too; JSON ignores it)
	return ok(got is not None and len(stub.received) == 1 and stub.received[0].lstrip(' ') == j and len(stub.received[0]) - len(j) <= 1)


def explain_header(j: str, rest: str) -> str:
	return f'header text {j!r} followed by {rest!r}: try_from_content does not hand exactly that text to the JSON decoder'


# ---------------------------------------------------------------- O2 regeneration decision
class _Config:
	output_language = 'h'
	force = False

	def __init__(self, output_dirs: list) -> None:
		self.output_dirs = output_dirs


class _Sources:
	def __init__(self, files: dict) -> None:
		self.files = files

	def exists(self, path: str) -> bool:
		return path in self.files

	def load(self, path: str) -> str:
		return self.files[path]


class _Transpiler:
	def __init__(self, meta: dict) -> None:
		self.meta = meta


def make_runner(output_dirs: list, files: dict, module_meta: dict, transpiler_meta: dict) -> Runner:
	r = Runner.__new__(Runner)
	r.sources = _Sources(files)  # type: ignore
	r.config = _Config(output_dirs)  # type: ignore
	r.module_meta_factory = lambda path: dict(module_meta, path=path)  # type: ignore
	r.transpiler = _Transpiler(transpiler_meta)  # type: ignore
	return r


def check_decision(changed: int, has_file: bool, has_header: bool) -> bool:
	"""changed: 0 nothing, 1 source hash, 2 module path, 3 transpiler version, 4 transpiler module, 5 application version"""
	mp = ModulePath('pkg.mod', language='py')
	old_module = {'hash': 'H1' if changed != 1 else 'H0', 'path': 'pkg.mod' if changed != 2 else 'pkg.old'}
	old_transpiler = {'version': '1.0.0' if changed != 3 else '0.9.0', 'module': 'T' if changed != 4 else 'T0'}
	old = MetaHeader(old_module, old_transpiler, None if changed != 5 else '0.0.1')  # type: ignore
	runner = make_runner(['out'], {}, {'hash': 'H1'}, {'version': '1.0.0', 'module': 'T'})
	path = runner.output_filepath(mp)
	if has_file:
		body = (PREFIX + old.to_header_str() + '\n' if has_header else '') + '#pragma once\nint f() { return 1; }\n'
		runner.sources.files[path] = body  # type: ignore
	want = (not has_file) or (not has_header) or changed != 0
	if changed:
		cover('component_changed')
	if has_file and has_header and not changed:
		cover('up_to_date')
	return runner.can_transpile(mp) == want


def decision_law(changed: int, has_file: bool, has_header: bool) -> bool:
	"""
	pre: 0 <= changed <= 5
	post: _
	"""
	return ok(natively(check_decision, decode(changed, 6), True if has_file else False, True if has_header else False))


# ---------------------------------------------------------------- O3 distinct modules never share an output path
CONFIG: int = int(CASE.get('config', 0))
CONFIGS = [['fb'], ['src/:out', 'fb'], ['src/:out', 'lib/x/:gen', 'fb']]


def dotted(m: str) -> bool:
	return len(m) > 0 and m[0] != '.' and m[-1] != '.' and '..' not in m


def path_law(m1: str, m2: str) -> bool:
	"""
	pre: len(m1) <= MAXLEN and len(m2) <= MAXLEN
	pre: in_alpha(m1) and in_alpha(m2)
	pre: dotted(m1) and dotted(m2)
	pre: m1 != m2
	post: _
	"""
	runner = make_runner(CONFIGS[CONFIG], {}, {'hash': 'h'}, {'version': 'v', 'module': 'm'})
	p1 = runner.fetch_output_path(m1.replace('.', '/') + '.h')
	p2 = runner.fetch_output_path(m2.replace('.', '/') + '.h')
	if p1.startswith('out') or p2.startswith('out'):
		cover('rule_applied')
	return ok(p1 != p2)


def explain_path(m1: str, m2: str) -> str:
	runner = make_runner(CONFIGS[CONFIG], {}, {'hash': 'h'}, {'version': 'v', 'module': 'm'})
	return f'output_dirs {CONFIGS[CONFIG]!r}: modules {m1!r} and {m2!r} -> {runner.fetch_output_path(m1.replace(".", "/") + ".h")!r} / {runner.fetch_output_path(m2.replace(".", "/") + ".h")!r}'


ELEMS = ['s', 'x', 'u']
ELEM_CONFIGS = [['s/:out', 'fb'], ['s/:out', 'x/:gen', 'fb']]


def elem_sequences() -> list:
	"""module paths under the rule folder `s` (<= 4 elements, so the folder name can recur deeper) and a few outside it"""
	import itertools
	out = [('x',), ('u',), ('x', 'u'), ('out', 'u'), ('x', 's', 'u')]
	for n in range(0, 4):
		out.extend(('s',) + t for t in itertools.product(ELEMS, repeat=n))
	return out


SEQS = elem_sequences()


def check_elem_paths(i: int, j: int, cfg: int) -> bool:
	if i == j:
		return True
	runner = make_runner(ELEM_CONFIGS[cfg], {}, {'hash': 'h'}, {'version': 'v', 'module': 'm'})
	p1 = runner.output_filepath(ModulePath('.'.join(SEQS[i]), language='py'))
	p2 = runner.output_filepath(ModulePath('.'.join(SEQS[j]), language='py'))
	if SEQS[i][0] == 's' and 's' in SEQS[i][1:]:
		cover('rule_folder_recurs')
	return p1 != p2


ROW = CASE.get('row')


def elem_paths_law(i: int, j: int, cfg: int) -> bool:
	"""
	pre: 0 <= i < len(SEQS) and 0 <= j < len(SEQS) and 0 <= cfg < len(ELEM_CONFIGS)
	pre: ROW is None or i % 4 == ROW
	post: _
	"""
	# module paths as element sequences (so that a rule's folder name can recur deeper in the path)
	return ok(natively(check_elem_paths, decode(i, len(SEQS)), decode(j, len(SEQS)), decode(cfg, len(ELEM_CONFIGS))))


def glob_paths_closed() -> bool:
	"""glob rules ('dir/*:out') go through re.fullmatch: closed over a finite family of module names"""
	import itertools
	names = ['a', 'b', 'src.a', 'src.b', 'src.x.a', 'srcx.a', 'lib.a', 'lib.src.a', 'out.a', 'src']
	for dirs in (['src/*:out', 'fb'], ['src/*:out', 'lib/*:gen', 'fb'], ['src/x/*:deep', 'src/*:out', 'fb']):
		runner = make_runner(dirs, {}, {'hash': 'h'}, {'version': 'v', 'module': 'm'})
		outs = {}
		for n in names:
			p = runner.output_filepath(ModulePath(n, language='py'))
			cover('path')
			if p in outs:
				return ok(False)
			outs[p] = n
	return ok(True)


CLASSIFIERS: dict = {}
EXPLAIN = {'header_law': explain_header, 'path_law': explain_path,
	'elem_paths_law': lambda i, j, cfg: f'output_dirs {ELEM_CONFIGS[cfg]!r}: modules {".".join(SEQS[i])!r} and {".".join(SEQS[j])!r} share an output path',
	'decision_law': lambda changed, has_file, has_header: f'changed component #{changed}, output file present={has_file}, header present={has_header}: can_transpile answers the opposite of "no old header or some component differs"'}
