"""Universe of the C19 harness: symbols and factories, importable by dotted path (LazyDI by-name registrations need that)."""
from typing import Generic, TypeVar

T = TypeVar('T')
SERIAL = [0]


def _next() -> int:
	SERIAL[0] += 1
	return SERIAL[0]


class S0:
	"""symbol 0"""
	tag = 'S0'

	def __init__(self) -> None:
		self.serial = _next()


class G(Generic[T]):
	"""symbol 1 is used through the generic alias G[int] (normalised to G by the container)"""
	tag = 'G'

	def __init__(self) -> None:
		self.serial = _next()


class F0a(S0):
	"""factory a of S0: a subclass (class factory, no dependencies)"""
	tag = 'F0a'


def f0b() -> S0:
	"""factory b of S0: a function"""
	o = S0()
	o.tag = 'f0b'  # type: ignore
	return o


class F1a(G[int]):
	"""factory a of G: class depending on S0 (resolution must curry S0)"""
	tag = 'F1a'

	def __init__(self, dep: S0) -> None:
		super().__init__()
		self.dep = dep


def f1b() -> G[int]:
	"""factory b of G: a function without dependencies"""
	o = G[int]()
	o.tag = 'f1b'  # type: ignore
	return o


def g0(a: S0, n: int) -> tuple:
	return ('g0', a, n)


def g1(a: S0, b: G[int], n: int) -> tuple:
	return ('g1', a, b, n)


def g2(n: int, a: S0) -> tuple:
	return ('g2', n, a)


def make_h(t: type):
	"""two closures with one qualified name and different annotations (the container must tell them apart)"""
	def h(a: t, n: int) -> tuple:  # type: ignore
		return ('h', a, n)
	return h


hA = make_h(S0)
hB = make_h(G[int])
