"""C13 — tokenizer agrees with Python and ignores insignificant layout.

Real code: Lexer.parse_impl / Lexer.parse / post_filter / Tokenizer.parse, Token.SourceMap.make
(rogw/tranp/implements/syntax/tranp/tokenizer.py, token.py).
Symbolic (S): the source buffer, an edit position. Case split (F): alphabet, prefix.
"""
from vlib.prelude import ALPHA, CASE, PREFIX, cover, in_alpha, ok, prefix_ok
from harness import pylex_ref

from rogw.tranp.implements.syntax.tranp.token import SpecialSymbols, TokenDefinition, TokenTypes
from rogw.tranp.implements.syntax.tranp.tokenizer import Lexer, Tokenizer

MAXLEN: int = int(CASE.get('n', 4))

import re as _re
from rogw.tranp.implements.syntax.tranp import tokenizer as _tokenizer_module

CONTINUATION = '[ \t\f]*\\[ \t\f]*\r?\n'


class _ReShim:
	"""`re` as seen by tokenizer.py. The line-continuation post filter pattern needs a literal backslash to match, so for a
	string without backslash `re.split` returns the string unsplit; that case is answered without CrossHair's regex model
	(which costs ~0.5 s per LineBreak token). Any other pattern / any string with a backslash goes to the real `re`."""

	def __getattr__(self, name):
		return getattr(_re, name)

	@staticmethod
	def split(pattern, string, *a, **kw):
		if pattern == CONTINUATION and not a and not kw and chr(92) not in string:
			return [string]
		return _re.split(pattern, string, *a, **kw)


# shim soundness, checked concretely at import: identical answers on backslash-free whitespace runs
for _s in ['\n', ' \n ', '\n\n\t', '\r\n', ' ', '\n  \n  ', '\f\n']:
	assert _re.split(CONTINUATION, _s) == [_s], _s
_tokenizer_module.re = _ReShim()  # type: ignore

_DEF = TokenDefinition()
_LEXER = Lexer(_DEF)
_TOKENIZER = Tokenizer()

OPS = '=-+*/%&|^~<>!,:;@'  # operator / punctuation characters of the layout laws ('.' left out: it also is part of numbers)


SUBSET_ONLY: bool = bool(CASE.get('subset', False))
_LAST_LEX: list = [None, None]


def ref_lex(source: str):
	"""pylex_ref.lex, evaluated once per path (preconditions and body receive the same argument object)"""
	if _LAST_LEX[0] is not source:
		_LAST_LEX[0] = source
		_LAST_LEX[1] = pylex_ref.lex(source)
	return _LAST_LEX[1]


def first_ok(s: str) -> bool:
	# alphabets with quotes / backslashes: only buffers of the lexical subset (closed strings, no stray backslash)
	if SUBSET_ONLY and ref_lex(s) is None:
		return False
	return prefix_ok(s)


def raw_string(tok) -> str:
	return '-' if tok.string == SpecialSymbols.OpUnaryMinus.value else tok.string


# ---------------------------------------------------------------- O1/O2/O3 raw lexer: lossless, spans, total
def offset_of(source: str, line: int, column: int) -> int:
	"""independent (line, column) -> offset"""
	off = 0
	cur = 0
	while cur < line:
		nl = source.find('\n', off)
		if nl == -1:
			return -1
		off = nl + 1
		cur += 1
	return off + column


def lexer_laws(source: str) -> bool:
	"""
	pre: len(source) <= MAXLEN
	pre: in_alpha(source)
	pre: first_ok(source)
	post: _
	"""
	toks = _LEXER.parse_impl(source)  # O3: any exception is a counterexample
	if len(toks) > 1:
		cover('several_tokens')
	# O1 lossless
	if ''.join(raw_string(t) for t in toks) != source:
		return ok(False)
	# O2 spans address exactly the token text; consecutive tokens tile the source
	pos = 0
	for t in toks:
		sm = t.source_map
		b = offset_of(source, sm.begin_line, sm.begin_column)
		e = offset_of(source, sm.end_line, sm.end_column)
		text = raw_string(t)
		if b != pos or e != pos + len(text) or source[b:e] != text:
			return ok(False)
		if sm.begin_line != sm.end_line:
			cover('multi_line_token')
		if (sm.begin_line, sm.begin_column) > (sm.end_line, sm.end_column):
			return ok(False)
		pos = e
	return ok(pos == len(source))


def explain_lexer(source: str) -> str:
	try:
		toks = _LEXER.parse_impl(source)
		return f'parse_impl({source!r}) = {[(t.type.name, t.string, tuple(t.source_map)) for t in toks]!r}'
	except Exception as e:  # noqa: BLE001
		return f'parse_impl({source!r}) raises {type(e).__name__}: {e}'


# ---------------------------------------------------------------- O4 structure tokens balance
STRUCT = (TokenTypes.NewLine, TokenTypes.Indent, TokenTypes.Dedent)


def consistent_layout(source: str) -> bool:
	"""the property's domain for block structure: first line not indented; outside brackets every line's indentation is a
	multiple of the first indentation unit (blanks only or tabs only) and grows by at most one level per line;
	brackets balanced; no quotes"""
	depth = 0
	unit = 0
	level = 0
	lines = source.split('\n')
	for i, line in enumerate(lines):
		body = line.lstrip(' \t')
		ind = line[:len(line) - len(body)]
		code = body.split('#')[0].strip(' \t')
		if depth == 0 and code != '':
			if i == 0 and ind != '':
				return False
			if ' ' in ind and '\t' in ind:
				return False
			if len(ind) > 0:
				if unit == 0:
					unit = len(ind)
				if len(ind) % unit != 0:
					return False
			lv = len(ind) // unit if unit else 0
			if lv > level + 1:
				return False
			level = lv
		for ch in code:
			if ch in '([{':
				depth += 1
			elif ch in ')]}':
				depth -= 1
				if depth < 0:
					return False
	return depth == 0


def significant(source: str) -> list:
	return [(t.type, t.string) for t in _TOKENIZER.parse(source)]


def balance_law(source: str) -> bool:
	"""
	pre: len(source) <= MAXLEN
	pre: in_alpha(source)
	pre: first_ok(source)
	pre: consistent_layout(source)
	post: _
	"""
	toks = _TOKENIZER.parse(source)
	opened = 0
	enclosure = 0
	for t in toks:
		if t.type == TokenTypes.Indent:
			opened += 1
			cover('indent')
			if enclosure > 0:
				return ok(False)
		elif t.type == TokenTypes.Dedent:
			opened -= 1
			if opened < 0 or enclosure > 0:
				return ok(False)
		elif t.type == TokenTypes.NewLine:
			if enclosure > 0:
				return ok(False)
		elif t.string in ('(', '[', '{'):
			enclosure += 1
			cover('bracket')
		elif t.string in (')', ']', '}'):
			enclosure -= 1
	if opened != 0:
		return ok(False)
	# nothing but NewLine/Indent/Dedent is synthesised or dropped: the other tokens are the lexer's significant tokens, in order
	lexed = [(t.type, t.string) for t in _LEXER.parse_impl(source) if t.type not in (TokenTypes.WhiteSpace, TokenTypes.LineBreak, TokenTypes.Comment)]
	kept = [(t.type, t.string) for t in toks if t.type not in STRUCT]
	if kept != lexed:
		return ok(False)
	# the sequence ends with exactly one statement end followed by the closing dedents
	tail = [t.type for t in toks]
	while tail and tail[-1] == TokenTypes.Dedent:
		tail.pop()
	return ok(len(tail) > 0 and tail[-1] == TokenTypes.NewLine)


def explain_balance(source: str) -> str:
	return f'Tokenizer().parse({source!r}) = {[t.string for t in _TOKENIZER.parse(source)]!r}'


# ---------------------------------------------------------------- O6 layout metamorphism
def no_struct_change(a: str, b: str) -> bool:
	return significant(a) == significant(b)


def space_law(source: str, p: int) -> bool:
	"""
	pre: len(source) <= MAXLEN
	pre: in_alpha(source)
	pre: first_ok(source)
	pre: 0 < p < len(source)
	pre: consistent_layout(source)
	post: _
	"""
	# a blank next to an operator: between source[p-1] and source[p], one of them an operator character, not both
	# (two adjacent operator characters may be one combined operator), not after a minus, not at the start of a line, not inside a comment
	left, right = source[p - 1], source[p]
	if (left in OPS) == (right in OPS):
		return ok(True)
	if left == '-' or left in '\n \t' or right in '\n':
		return ok(True)
	if '#' in source[source.rfind('\n', 0, p) + 1:p]:
		return ok(True)
	cover('edit')
	return ok(no_struct_change(source, source[:p] + ' ' + source[p:]))


def explain_space(source: str, p: int) -> str:
	b = source[:p] + ' ' + source[p:]
	return f'tokens({source!r}) = {[s for _, s in significant(source)]!r} but tokens({b!r}) = {[s for _, s in significant(b)]!r}'


EDIT: str = CASE.get('edit', 'trail')


def edited(source: str, p: int) -> str | None:
	"""layout-only rewrites at a line end p (source[p] == '\\n' or p == len(source))"""
	if EDIT == 'trail':  # trailing blank before the line end
		return source[:p] + ' ' + source[p:]
	if EDIT == 'comment':  # comment at the end of the line
		return source[:p] + '#c' + source[p:]
	if EDIT == 'blankline':  # an empty line after this line
		return source[:p] + '\n' + source[p:]
	if EDIT == 'commentline':  # a comment-only line after this line
		return source[:p] + '\n#c' + source[p:]
	if EDIT == 'spaced_commentline':  # an indented comment-only line
		return source[:p] + '\n  #c' + source[p:]
	return None


def line_end_law(source: str, p: int) -> bool:
	"""
	pre: len(source) <= MAXLEN
	pre: in_alpha(source)
	pre: first_ok(source)
	pre: 0 <= p <= len(source)
	pre: p == len(source) or source[p] == chr(10)
	pre: consistent_layout(source)
	post: _
	"""
	if p > 0 and source[p - 1] == '-' and EDIT in ('trail', 'comment'):
		return ok(True)  # "other than after a minus sign"
	b = edited(source, p)
	cover('edit')
	if p < len(source):
		cover('inner_line_end')
	return ok(no_struct_change(source, b))


def explain_line_end(source: str, p: int) -> str:
	b = edited(source, p)
	return f'[{EDIT}] tokens({source!r}) = {[s for _, s in significant(source)]!r} but tokens({b!r}) = {[s for _, s in significant(b)]!r}'


UNITS = [' ', '  ', '    ', '\t']
UNIT_A: int = int(CASE.get('unit_a', 0))
UNIT_B: int = int(CASE.get('unit_b', 3))


def make_block(unit: str, l1: int, l2: int, l3: int, body: str) -> str:
	return 'a:\n' + unit * l1 + body + '\n' + unit * l2 + 'b\n' + unit * l3 + 'c'


ALL_LEVELS = [(l1, l2, l3) for l1 in range(2) for l2 in range(l1 + 2) for l3 in range(l2 + 2)]
BODIES = ['a', 'x1', '7', '(', '-', ':', 'a(', '-a']


def indent_unit_closed() -> bool:
	"""closed obligation (no free variable, evaluated directly): all 14 nestings of three lines under a header x all pairs of
	indentation units x representative one-token bodies give the same significant tokens"""
	for body in BODIES:
		for l1, l2, l3 in ALL_LEVELS:
			base = significant(make_block(UNITS[0], l1, l2, l3, body))
			for u in UNITS[1:]:
				cover('edit')
				if significant(make_block(u, l1, l2, l3, body)) != base:
					return ok(False)
	return ok(True)


def explain_indent_unit() -> str:
	for body in BODIES:
		for l1, l2, l3 in ALL_LEVELS:
			a = make_block(UNITS[0], l1, l2, l3, body)
			for u in UNITS[1:]:
				b = make_block(u, l1, l2, l3, body)
				if significant(a) != significant(b):
					return f'tokens({a!r}) = {[s for _, s in significant(a)]!r} but tokens({b!r}) = {[s for _, s in significant(b)]!r}'
	return 'no difference'


# ---------------------------------------------------------------- O5 agreement with CPython (through the validated reference lexer)
def tranp_significant(source: str) -> list:
	out = []
	for t in _TOKENIZER.parse(source):
		if t.type == TokenTypes.NewLine:
			out.append(('NEWLINE', ''))
		elif t.type == TokenTypes.Indent:
			out.append(('INDENT', ''))
		elif t.type == TokenTypes.Dedent:
			out.append(('DEDENT', ''))
		elif t.type == TokenTypes.Name:
			out.append(('NAME', t.string))
		elif t.type in (TokenTypes.Digit, TokenTypes.Decimal):
			out.append(('NUMBER', t.string))
		elif t.type == TokenTypes.String:
			out.append(('STRING', t.string))
		elif t.domain.name == 'Symbol':
			out.append(('OP', raw_string(t)))
		else:
			out.append((t.type.name, t.string))
	return out


def cpython_law(source: str) -> bool:
	"""
	pre: len(source) <= MAXLEN
	pre: in_alpha(source)
	pre: first_ok(source)
	pre: ref_lex(source) is not None and len(ref_lex(source)) > 0
	post: _
	"""
	want = ref_lex(source)
	if any(k == 'INDENT' for k, _ in want):
		cover('indent')
	if any(k == 'STRING' for k, _ in want):
		cover('string')
	if any(k == 'OP' and len(v) > 1 for k, v in want):
		cover('combined_op')
	if len(want) > 2:
		cover('several_tokens')
	return ok(tranp_significant(source) == want)


def explain_cpython(source: str) -> str:
	return f'source {source!r}: tranp {tranp_significant(source)!r} / CPython tokenize {pylex_ref.cpython_significant(source)!r} / reference {pylex_ref.lex(source)!r}'


def template_sources() -> list:
	"""longer structured sources (beyond the symbolic bound): bracket continuation lines with their own indentation in front of,
	inside and after indented blocks, comments / blank lines in between, four indentation units"""
	out = []
	for ci in ['', ' ', '  ', '   ', '\t']:
		for u in [' ', '  ', '    ', '\t']:
			for head in [f'x = [\n{ci}1,\n{ci}2,\n]\n', f'f(a,\n{ci}b)\n', '']:
				for sep in ['', '\n', '# c\n', f'{u}# c\n']:
					out.append(f'{head}if x:\n{u}y = 1\n{sep}{u}if y:\n{u}{u}z = (1,\n{ci}2)\n{sep}{u}{u}k = z\nw = 3\n')
					out.append(f'{head}def f(a,\n{ci}b):\n{u}return {{\n{ci}1: a,\n{ci}}}\n{sep}v = f(\n{ci}1)')
	return out


STRING_LITERALS = ['"a"', "'a'", '""', "''", '"a\\"b"', "'a\\'b'", '"a\\""', "'\\''", '"a\\\\"', '"it\'s"', '\'say "hi"\'', 'r"a\\b"', 'r"\\""', '"""a"""', '"""a"b"""', '"""a\\""""', '"""\\""""', '"""a\\\\"""', '"""a\\"b"""',
	'"""a\\" ""b"""', '"""a\nb"""', '"""\n\n"""', '"""a\\"\\"\\""""', '"x\\n"', '"#"', "'# c'", '"(["', '"a" "b"']


def string_sources() -> list:
	"""string literals (plain, raw, triple double-quoted, with escaped quotes and backslashes next to the closing quote, holding
	comment / bracket characters) in three statement contexts"""
	out = []
	for lit in STRING_LITERALS:
		out += [f's = {lit}\n', f'f({lit}, {lit})  # c\n', f'if x:\n\ts = {lit} + {lit}\ny = 1\n']
	return out


def strings_closed() -> bool:
	"""closed obligation: on the string-literal family the significant tokens equal what the real CPython tokenize module produces"""
	for src in string_sources():
		want = pylex_ref.cpython_significant(src)
		if want is None:
			continue
		cover('template')
		cover('member')
		if tranp_significant(src) != want:
			return ok(False)
	return ok(True)


def explain_strings() -> str:
	for src in string_sources():
		want = pylex_ref.cpython_significant(src)
		if want is not None and tranp_significant(src) != want:
			return f'source {src!r}: tranp {tranp_significant(src)!r} / CPython tokenize {want!r}'
	return 'no difference'


def templates_closed() -> bool:
	"""closed obligation: on the template family the significant tokens equal what the real CPython tokenize module produces"""
	for src in template_sources():
		want = pylex_ref.cpython_significant(src)
		if want is None:
			continue
		cover('template')
		if tranp_significant(src) != want:
			return ok(False)
	return ok(True)


def explain_templates() -> str:
	for src in template_sources():
		want = pylex_ref.cpython_significant(src)
		if want is not None and tranp_significant(src) != want:
			return f'source {src!r}: tranp {tranp_significant(src)!r} / CPython tokenize {want!r}'
	return 'no difference'


CLASSIFIERS: dict = {}
EXPLAIN = {
	'templates_closed': explain_templates,
	'strings_closed': explain_strings,
	'cpython_law': explain_cpython,
	'lexer_laws': explain_lexer,
	'balance_law': explain_balance,
	'space_law': explain_space,
	'line_end_law': explain_line_end,
	'indent_unit_closed': explain_indent_unit,
}
