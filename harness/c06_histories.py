"""C06 sentence 1 — "after any history of source edits and command-line runs, every output file equals what a forced run would write
for the current sources and settings ... files that need no regeneration are left untouched".

  regen_law          (F)  the real module_meta_factory + MetaHeader + Runner.can_transpile over every acyclic import graph of 4 modules:
                          after a run wrote the headers and module x was edited, every module whose output depends on x (x in its
                          dependency cone) is selected for regeneration. Split: x is the module itself / x is imported (distance >= 1).
                          A failing step is demonstrated through the real command-line application before it counts.
  histories_closed   (C)  edit / run / run -f / delete-output histories of generated module graphs through the real
                          TranspileApp (config file, input globs, output_dirs, Writer) on a scratch file system: at every run the
                          files after `run` are compared with the files after `run -f` from the same state.

$VERIF_CASE for histories_closed: {"shape": <name>, "families": [...]}
"""
import os
import shutil
import tempfile

from vlib import prelude
from vlib.prelude import CASE, cover, decode, known_classes, natively, ok

from harness.c05_graph import cone_dist, mod, source_of
from harness.c05_histories import SHAPES

from rogw.tranp.bin.transpile import Runner
from rogw.tranp.data.meta.header import MetaHeader
from rogw.tranp.module.types import ModulePath, ModulePaths
from rogw.tranp.providers.module import module_meta_factory

KNOWN_CLASS = 'import-edit-not-regenerated'
NOTES: list = []
N = 4
PAIRS = [(0, 1), (0, 2), (0, 3), (1, 2), (1, 3), (2, 3)]


def edges_of(bits: list) -> dict:
	edges: dict = {}
	for (i, j), b in zip(PAIRS, bits):
		if b:
			edges.setdefault(i, []).append(j)
	return edges


# -- regen_law --------------------------------------------------------------------

class _Sources:
	"""source loader: module files by version, output files by content"""

	def __init__(self, versions: list) -> None:
		self.versions = versions
		self.files: dict = {}

	def exists(self, path: str) -> bool:
		return path in self.files

	def load(self, path: str) -> str:
		return self.files[path]

	def hash(self, path: str) -> str:
		j = int(path.split('/m')[-1].split('.')[0])
		return f'hash-of-{path}-v{self.versions[j]}'


class _Config:
	output_language = 'cpp:h'
	output_dirs = ['out']


class _Transpiler:
	meta = {'version': '1.0.0', 'module': 'T'}


def _runner(sources: _Sources) -> Runner:
	paths = ModulePaths([ModulePath(mod(j), language='py') for j in range(N)])
	r = Runner.__new__(Runner)
	r.sources = sources  # type: ignore
	r.config = _Config()  # type: ignore
	r.module_paths = paths
	r.module_meta_factory = module_meta_factory(paths, sources)  # type: ignore
	r.transpiler = _Transpiler()  # type: ignore
	return r


def _regen(bits: list, x: int, far: bool) -> tuple:
	edges = edges_of(bits)
	sources = _Sources([0] * N)
	runner = _runner(sources)
	# the first run: every module is selected (no output yet) and its output carries the header of that run
	for p in runner.module_paths:
		if not runner.can_transpile(p):
			return edges, [('first-run', p.path)]
		header = MetaHeader(runner.module_meta_factory(p.path), runner.transpiler.meta)
		sources.files[runner.output_filepath(p)] = f'// {header.to_header_str()}\n#pragma once\n'
	sources.versions[x] = 1
	bad = []
	for a in range(N):
		d = cone_dist(edges, a).get(x)
		if d is None:
			if runner.can_transpile(runner.module_paths[a]):
				cover('regenerated-without-need')
			continue
		if (d >= 1) != far:
			continue
		cover(f'dist{min(d, 2)}')
		if not runner.can_transpile(runner.module_paths[a]):
			bad.append((a, d))
	return edges, bad


def regen_law(e01: bool, e02: bool, e03: bool, e12: bool, e13: bool, e23: bool, x: int) -> bool:
	"""
	pre: 0 <= x < 4
	post: _
	"""
	x = decode(x, N)
	bits = [True if e else False for e in (e01, e02, e03, e12, e13, e23)]
	_, bad = natively(_regen, bits, x, bool(CASE.get('far')))
	return ok(not bad)


def explain_regen(e01, e02, e03, e12, e13, e23, x) -> str:
	edges, bad = _regen([e01, e02, e03, e12, e13, e23], x, bool(CASE.get('far')))
	return f'imports {edges}: after editing gm.m{x}, Runner.can_transpile does not select ' + ', '.join(f'gm.m{a} (import distance {d})' for a, d in bad)


def confirm_regen(e01, e02, e03, e12, e13, e23, x) -> tuple:
	edges = edges_of([e01, e02, e03, e12, e13, e23])
	site = Site(edges, N)
	try:
		site.run(False)
		site.edit(x, 1)
		diff = site.compare()
		if not diff:
			return False, 'through the command-line application the files after `run` equal the files after `run -f`'
		return True, 'TranspileApp: run, edit gm.m%d, then `run` vs `run -f`: %s' % (x, diff[0][1])
	finally:
		site.close()


# -- the real command-line application on a scratch site ------------------------

class Site:
	def __init__(self, edges: dict, n: int, output_dirs: list | None = None) -> None:
		import yaml
		self.edges, self.n = edges, n
		self.cwd = os.getcwd()
		self.root = tempfile.mkdtemp(prefix='c06s-', dir=prelude.scratch())
		os.chdir(self.root)
		os.symlink(os.path.join(prelude.REPO, 'data'), 'data')
		self.state = [0] * n
		self.clock = 1_700_000_000.0
		for j in range(n):
			self.edit(j, 0)
		with open('config.yml', 'w') as f:
			yaml.safe_dump({
				'grammar': 'data/grammar.lark', 'template_dirs': ['data/cpp/template'], 'trans_mapping': 'data/i18n.yml',
				'input_globs': ['gm/**/*.py'], 'exclude_patterns': [], 'output_dirs': output_dirs or ['gm/:out', './'], 'output_language': 'cpp:h',
				'env': {'transpiler': {'include_dirs': []}, 'view': {'immutable_param_types': ['std::string', 'std::vector', 'std::map', 'std::function']}},
			}, f)

	def edit(self, j: int, variant: int) -> None:
		self.clock += 7.25
		self.state[j] = variant
		os.makedirs('gm', exist_ok=True)
		path = f'gm/m{j}.py'
		with open(path, 'w') as f:
			f.write(source_of(self.edges, j, variant))
		os.utime(path, (self.clock, self.clock))

	def run(self, force: bool) -> None:
		"""one command-line run (a new application object); the caches of the generated modules are dropped first: what cache files
		left behind may change is property C05, not this one"""
		from rogw.tranp.app.app import App
		from rogw.tranp.bin.transpile import Args, TranspileApp
		shutil.rmtree('.cache/tranp/gm', ignore_errors=True)
		App(TranspileApp.definitions(Args(['-c', 'config.yml', *(['-f'] if force else [])]))).run(TranspileApp.run)

	def out_path(self, j: int) -> str:
		return f'out/m{j}.h'

	def snapshot(self) -> dict:
		files = {}
		for d, _, names in os.walk('out'):
			for name in names:
				p = os.path.join(d, name)
				with open(p, 'rb') as f:
					files[p] = (f.read(), os.stat(p).st_mtime_ns)
		return files

	def restore(self, files: dict) -> None:
		shutil.rmtree('out', ignore_errors=True)
		for p, (content, mtime_ns) in files.items():
			os.makedirs(os.path.dirname(p), exist_ok=True)
			with open(p, 'wb') as f:
				f.write(content)
			os.utime(p, ns=(mtime_ns, mtime_ns))

	def compare(self) -> list:
		"""from the current state: files after `run` vs files after `run -f`; leaves the site in the state after `run`.
		-> [(module index or None, text)]"""
		before = self.snapshot()
		self.run(False)
		after_run = self.snapshot()
		self.restore(before)
		self.run(True)
		after_forced = self.snapshot()
		self.restore(after_run)
		diff = []
		for p in sorted(set(after_run) | set(after_forced)):
			a, b = after_run.get(p, (None, 0))[0], after_forced.get(p, (None, 0))[0]
			if a != b:
				j = int(p.split('/m')[-1].split('.')[0]) if '/m' in p else None
				al = [] if a is None else [ln for ln in a.decode().split('\n') if b is None or ln not in b.decode().split('\n')]
				bl = [] if b is None else [ln for ln in b.decode().split('\n') if a is None or ln not in a.decode().split('\n')]
				diff.append((j, f'{p}: after `run` {al[:2]!r} / after `run -f` {bl[:2]!r}'))
		# "files that need no regeneration are left untouched": a file that `run` did not have to change keeps its mtime
		for p, (content, mtime_ns) in before.items():
			if p in after_run and after_run[p][0] == content and after_run[p][1] != mtime_ns:
				j = int(p.split('/m')[-1].split('.')[0]) if '/m' in p else None
				if j is not None and self.last_written.get(j) == self.state[j]:
					diff.append((None, f'{p}: rewritten by `run` although its module was not edited since the output was written'))
		return diff

	last_written: dict = {}
	org_version = None

	def close(self) -> None:
		if self.org_version:
			from rogw.tranp.data.version import Versions
			Versions.app = self.org_version
		os.chdir(self.cwd)
		shutil.rmtree(self.root, ignore_errors=True)


def histories(n: int, families: list) -> list:
	"""ops: ('run',) = compare run / run -f from here and continue after `run`; ('force',); ('edit', module, variant); ('delete', module); ('upgrade', application version)"""
	out = []
	R = ('run',)
	for x in range(n):
		if 'edit' in families:
			out.append((f'edit m{x}', [R, ('edit', x, 1), R, R]))
		if 'fresh-edit' in families:
			out.append((f'edit m{x} before the first run', [('edit', x, 1), R]))
		if 'delete' in families:
			out.append((f'delete the output of m{x}', [R, ('delete', x), R]))
		if 'back' in families:
			out.append((f'edit m{x} and back', [R, ('edit', x, 1), R, ('edit', x, 0), R]))
		if 'upgrade' in families and x == 0:
			out.append(('application upgrade between two runs', [R, ('upgrade', '9.9.9'), R, R]))
			out.append(('application upgrade and an edit', [R, ('edit', 1, 1), ('upgrade', '9.9.9'), R]))
		if 'forced-middle' in families:
			out.append((f'edit m{x}, run -f, edit again', [R, ('edit', x, 1), ('force',), ('edit', x, 2), R]))
		for y in range(n):
			if 'edit-delete' in families:
				out.append((f'edit m{x}, delete the output of m{y}', [R, ('edit', x, 1), ('delete', y), R]))
			if 'two' in families and x != y:
				out.append((f'edit m{x}, edit m{y}', [R, ('edit', x, 1), R, ('edit', y, 1), R]))
	return out


def run_history(n: int, edges: dict, name: str, ops: list, tolerate_known: bool) -> str | None:
	site = Site(edges, n)
	try:
		written_cone: dict = {}  # module -> state of its dependency cone when its output was last written
		site.last_written = {}

		def cone_state(a: int) -> tuple:
			return tuple((j, site.state[j]) for j in sorted(cone_dist(edges, a)))

		def note_written(which: list) -> None:
			for a in which:
				written_cone[a] = cone_state(a)
				site.last_written[a] = site.state[a]

		for i, op in enumerate(ops):
			if op[0] == 'edit':
				site.edit(op[1], op[2])
			elif op[0] == 'delete':
				if os.path.exists(site.out_path(op[1])):
					os.unlink(site.out_path(op[1]))
				written_cone.pop(op[1], None)
				site.last_written.pop(op[1], None)
			elif op[0] == 'upgrade':
				from rogw.tranp.data.version import Versions
				site.org_version = site.org_version or Versions.app
				Versions.app = op[1]
				written_cone.clear()
				site.last_written = {}
			elif op[0] == 'force':
				site.run(True)
				note_written(list(range(n)))
			else:
				cover('run')
				needs = [a for a in range(n) if site.last_written.get(a) != site.state[a]]
				diff = site.compare()
				for j, text in diff:
					if j is not None and j not in needs and written_cone.get(j) != cone_state(j) and tolerate_known:
						cover('known-class')
						NOTES.append(f'{name} (step {i}): gm.m{j} is not regenerated although an imported module changed (listed finding {KNOWN_CLASS})')
						continue
					return f'{name}: at step {i} ({op}) source state {site.state}: {text}'
				note_written(needs)
		return None
	finally:
		site.close()


def histories_closed() -> bool:
	shape = CASE.get('shape', 'chain3')
	families = CASE.get('families', ['edit'])
	n, edges = SHAPES[shape]
	tolerate = KNOWN_CLASS in known_classes('C06')
	del NOTES[:]
	for name, ops in histories(n, families):
		cover('history')
		cover('member')
		bad = run_history(n, edges, f'{shape}: {name}', ops, tolerate)
		if bad:
			NOTES.append(bad)
			return ok(False)
	return ok(True)


CLASSIFIERS = {'regen_law': lambda e01, e02, e03, e12, e13, e23, x: KNOWN_CLASS if CASE.get('far') else None}
CONFIRM = {'regen_law': confirm_regen}
EXPLAIN = {'regen_law': explain_regen, 'histories_closed': lambda: ' ; '.join(NOTES[-3:])}
