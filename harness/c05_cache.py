"""C05 — on-disk caches never change the result (sentences 2 and 3: disabled caching touches no file; a damaged file never loads as other content).

Real code: CacheProvider.get / CachedProxy / CachedDummy (cache/cache.py), SymbolDBPersistor.stored/store/restore (persistent.py),
EntryStored.load (lark/parser.py, through harness.c15_serial).
Environment = nondeterministic / recording stubs: `os`, `glob`, `open` as seen by the two modules, the source loader and the module.
Symbolic (F): the environment's booleans (caching enabled, module on disk, cache file present).
"""
import io

from vlib.prelude import CASE, cover, ok

from rogw.tranp.cache import cache as cache_module
from rogw.tranp.cache.cache import CacheProvider, CacheSetting
from rogw.tranp.semantics.reflection import persistent as persistent_module
from rogw.tranp.semantics.reflection.persistent import SymbolDBPersistor

LOG: list = []
ENV: dict = {'exists': False, 'files': {}}


class _Path:
	sep = '/'

	@staticmethod
	def exists(p) -> bool:
		LOG.append(('os.path.exists', str(p)))
		return ENV['exists']

	@staticmethod
	def abspath(p) -> str:
		return '/abs/' + str(p).lstrip('/')

	@staticmethod
	def join(*a) -> str:
		return '/'.join(str(x).strip('/') for x in a if x)

	@staticmethod
	def dirname(p) -> str:
		return str(p).rsplit('/', 1)[0]


class _Os:
	path = _Path()
	sep = '/'

	@staticmethod
	def getcwd() -> str:
		return '/cwd'

	@staticmethod
	def makedirs(p) -> None:
		LOG.append(('os.makedirs', str(p)))

	@staticmethod
	def unlink(p) -> None:
		LOG.append(('os.unlink', str(p)))


class _Glob:
	@staticmethod
	def glob(pattern) -> list:
		LOG.append(('glob.glob', str(pattern)))
		return ['/abs/old-1.json'] if ENV['exists'] else []

	@staticmethod
	def escape(pathname: str) -> str:
		import glob
		return glob.escape(pathname)


class _File(io.BytesIO):
	def __init__(self, path: str, mode: str) -> None:
		super().__init__(ENV['files'].get(path, b'') if 'r' in mode else b'')
		self._path = path
		self._mode = mode

	def close(self) -> None:
		if 'w' in self._mode:
			ENV['files'][self._path] = self.getvalue()
		super().close()


def _open(path, mode='r', *a, **kw):
	LOG.append(('open', str(path), mode))
	return _File(str(path), mode)


for _m in (cache_module, persistent_module):
	_m.os = _Os()  # type: ignore
	_m.glob = _Glob()  # type: ignore
	_m.open = _open  # type: ignore


def file_ops() -> list:
	"""everything that reads or writes the cache directory (existence probes included: "no cache file is read or written")"""
	return [e for e in LOG if e[0] in ('open', 'os.unlink', 'os.makedirs', 'glob.glob', 'sources.load')]


class Thing:
	"""a Stored implementation"""

	def __init__(self, tag: str) -> None:
		self.tag = tag

	@classmethod
	def load(cls, stream) -> 'Thing':
		return Thing('loaded:' + stream.read().decode())

	def save(self, stream) -> None:
		stream.write(self.tag.encode())


def provider_law(enabled: bool, present: bool, twice: bool) -> bool:
	"""
	post: _
	"""
	del LOG[:]
	ENV['exists'] = present
	ENV['files'] = {}
	provider = CacheProvider(CacheSetting(basedir='.cache', enabled=enabled))
	calls = []

	def factory() -> Thing:
		calls.append(1)
		return Thing('fresh')

	wrapped = provider.get('mod/a', identity={'mtime': '1'}, format='json')(factory)
	if present:
		# the cache file of exactly this key / identity exists and holds "old"
		for k in [cache_module.CachedProxy(Thing, factory, {'mtime': '1'}, '.cache', format='json').gen_cache_path('mod/a')]:
			ENV['files'][k] = b'old'
	got = wrapped()
	again = wrapped() if twice else got
	if again is not got:
		return ok(False)  # one instance per provider and identity
	if not enabled:
		cover('disabled')
		return ok(got.tag == 'fresh' and len(calls) == 1 and file_ops() == [])
	if present:
		cover('warm')
		return ok(got.tag == 'loaded:old' and len(calls) == 0 and [e for e in file_ops() if e[0] == 'open' and 'w' in e[2]] == [])
	cover('cold')
	writes = [e for e in file_ops() if e[0] == 'open' and 'w' in e[2]]
	return ok(got.tag == 'fresh' and len(calls) == 1 and len(writes) == 1)


class _Module:
	path = 'pkg.mod'

	def __init__(self, on_disk: bool) -> None:
		self._on_disk = on_disk

	def in_storage(self) -> bool:
		return self._on_disk

	def identity(self) -> str:
		return 'abc123'


class _Sources:
	def __init__(self, present: bool) -> None:
		self.present = present

	def exists(self, path: str) -> bool:
		LOG.append(('sources.exists', path))
		return self.present

	def load(self, path: str) -> str:
		LOG.append(('sources.load', path))
		return '{}'


class _Db:
	def __init__(self) -> None:
		self.imported = 0

	def to_json(self, serializer, for_module_path=None) -> dict:
		return {'k': {'class': 'Symbol'}}

	def import_json(self, serializer, data) -> None:
		self.imported += 1


def persistor_law(enabled: bool, on_disk: bool, present: bool, op: int) -> bool:
	"""
	pre: 0 <= op < 3
	post: _
	"""
	del LOG[:]
	ENV['exists'] = present
	ENV['files'] = {}
	p = SymbolDBPersistor(CacheSetting(basedir='.cache', enabled=enabled), None, _Sources(present))  # type: ignore
	module = _Module(on_disk)
	db = _Db()
	if op == 0:
		answer = p.stored(module)  # type: ignore
		if answer != (enabled and on_disk and present):
			return ok(False)
	elif op == 1:
		p.store(module, db)  # type: ignore
	else:
		p.restore(module, db)  # type: ignore
	ops = file_ops()
	if not enabled:
		cover('disabled')
		return ok(ops == [] and db.imported == 0)  # with caching disabled no cache file is read or written
	cover('enabled')
	if op == 1:
		wrote = [e for e in ops if e[0] == 'open' and 'w' in e[2]]
		return ok((len(wrote) == 1) == (on_disk and not present))
	if op == 2:
		return ok((db.imported == 1) == (on_disk and present))
	return ok(ops == [])


def truncated_symbols_closed() -> bool:
	"""a truncated symbol-table file never restores other content: json.loads of every proper prefix raises"""
	import json
	data = json.dumps({'pkg.mod#A': {'class': 'Symbol', 'types': 'pkg.mod#A', 'attrs': {}}, 'pkg.mod#x': {'class': 'Reflection', 'node': 'n', 'decl': 'd', 'origin': 'pkg.mod#A', 'via': 'pkg.mod#A', 'attrs': {'0': 'pkg.mod#A'}}}, separators=(',', ':'))
	for cut in range(len(data)):
		cover('cut')

		class S(_Sources):
			def load(self, path: str) -> str:
				return data[:cut]
		p = SymbolDBPersistor(CacheSetting(basedir='.cache', enabled=True), None, S(True))  # type: ignore
		db = _Db()
		try:
			p.restore(_Module(True), db)  # type: ignore
		except Exception:  # noqa: BLE001
			continue
		return ok(False)
	return ok(True)


CLASSIFIERS: dict = {}
EXPLAIN = {
	'provider_law': lambda enabled, present, twice: f'CacheProvider(enabled={enabled}) with cache file present={present}: file operations {file_ops()!r}',
	'persistor_law': lambda enabled, on_disk, present, op: f'SymbolDBPersistor(enabled={enabled}).{["stored", "store", "restore"][op]} module on disk={on_disk} file present={present}: file operations {file_ops()!r}',
}
