"""C19 — the dependency container follows its simple reference model.

Real code: DI / LazyDI (rogw/tranp/lang/di.py) with lang/locator.py, lang/module.py.
Symbolic (F): the operations of a short history (ints decoded through OPS), the first one fixed per process.
Each path is one concrete history; the solver's part is the exhaustive, infeasible-path-pruned enumeration.
Reference model = the property's sentences: one instance per binding generation, rebinding discards the instance,
combine = left overlaid by right (bindings *and* instances) into a new container leaving both operands alone,
unknown symbols raise ValueError, invoke curries exactly the leading resolvable annotated parameters.
"""
from vlib.prelude import CASE, cover, decode, natively, ok

from rogw.tranp.lang.di import LazyDI

from harness import c19_universe as U

SYMS = [U.S0, U.G[int]]
SYM_KEYS = [U.S0, U.G]
FACTORIES = [[U.F0a, U.f0b], [U.F1a, U.f1b]]
FACTORY_TAGS = [['F0a', 'f0b'], ['F1a', 'f1b']]
FNS = [U.g0, U.g1, U.g2, U.hA, U.hB]
FN_ANNOS = [[0, 'int'], [0, 1, 'int'], ['int', 0], [0, 'int'], [1, 'int']]  # symbol index or 'int'
ARGSETS = [(7,), (7, 8)]


def build_ops() -> list:
	ops = []
	for k in range(3):
		for s in range(2):
			for f in range(2):
				ops.append(('set', k, s, f))
	for k in range(3):
		for s in range(2):
			ops.append(('unbind', k, s))
	for k in range(3):
		for s in range(2):
			ops.append(('resolve', k, s))
	ops.append(('combine', 0, 1))
	ops.append(('combine', 1, 0))
	for k in range(3):
		for fn in range(3):
			for a in range(2):
				ops.append(('invoke', k, fn, a))
	# two closures sharing one qualified name (same-container and cross-container sequences)
	for k in range(2):
		for fn in (3, 4):
			ops.append(('invoke', k, fn, 0))
	return ops


OPS = build_ops()
NOPS = len(OPS)
O1 = CASE.get('o1')  # first operation fixed per process (case split)


class Reg:
	"""one registration: factory (symbol index, factory index) + instance serial or None"""

	def __init__(self, sym: int, fac: int, inst=None) -> None:
		self.sym = sym
		self.fac = fac
		self.inst = inst

	def copy(self) -> 'Reg':
		return Reg(self.sym, self.fac, self.inst)


class Model:
	"""reference model of one container: symbol index -> Reg"""

	def __init__(self, regs: dict) -> None:
		self.regs = regs


class World:
	def __init__(self) -> None:
		U.SERIAL[0] = 0
		self.serial = 0
		# c0: S0 registered by name (lazy, factory F0a), G registered directly (lazy, factory F1a which depends on S0)
		# c1: S0 registered directly (lazy, factory f0b)
		path = lambda o: f'{o.__module__}.{o.__qualname__}'  # noqa: E731
		self.real = [
			LazyDI.instantiate({path(U.S0): path(U.F0a), path(U.G): U.F1a}),
			LazyDI.instantiate({path(U.S0): U.f0b}),
			None,
		]
		self.model = [Model({0: Reg(0, 0), 1: Reg(1, 0)}), Model({0: Reg(0, 1)}), None]
		self.objects: dict = {}  # serial -> real object (identity checks)

	# ---- model side
	def m_new(self, m: Model, sym: int) -> tuple:
		"""instantiate the registration of sym in m; returns (tag, serial) or raises ValueError (dependency missing)"""
		reg = m.regs[sym]
		if reg.sym == 1 and reg.fac == 0:
			# F1a(dep: S0): S0 is curried when resolvable, else the call has no argument -> mismatch
			if 0 not in m.regs:
				raise ValueError('mismatch')
			self.m_resolve(m, 0)
		self.serial += 1
		return (FACTORY_TAGS[reg.sym][reg.fac], self.serial)

	def m_resolve(self, m: Model, sym: int) -> tuple:
		if sym not in m.regs:
			raise ValueError('unknown')
		reg = m.regs[sym]
		if reg.inst is None:
			reg.inst = self.m_new(m, sym)
		return reg.inst

	def m_invoke(self, m: Model, fn: int, args: tuple) -> tuple:
		annos = FN_ANNOS[fn]
		curried = []
		for a in annos:
			if a == 'int' or a not in m.regs:
				break
			curried.append(self.m_resolve(m, a))
		rest = annos[len(curried):]
		if len(rest) != len(args) or any(a != 'int' for a in rest):
			raise ValueError('mismatch')
		return (FNS[fn].__name__, *curried, *args)

	# ---- observation helpers
	def describe(self, obj) -> tuple:
		return (getattr(obj, 'tag', type(obj).__name__), getattr(obj, 'serial', None))

	def same(self, real_result, model_result) -> bool:
		"""compare a real resolve/invoke result with the model's prediction"""
		if isinstance(model_result, tuple) and len(model_result) == 2 and isinstance(model_result[1], int) and isinstance(model_result[0], str) and not isinstance(real_result, tuple):
			if self.describe(real_result) != model_result:
				return False
			known = self.objects.setdefault(model_result[1], real_result)
			return known is real_result
		if isinstance(real_result, tuple) and isinstance(model_result, tuple) and len(real_result) == len(model_result):
			for r, m in zip(real_result, model_result):
				if isinstance(m, tuple):
					if not self.same(r, m):
						return False
				elif r != m:
					return False
			return True
		return False

	def step(self, op: tuple) -> bool:
		"""apply one operation to both sides; False = observable difference; ops that do not apply are skipped"""
		kind = op[0]
		if kind == 'combine':
			_, a, b = op
			self.real[2] = self.real[a].combine(self.real[b])
			regs = {s: r.copy() for s, r in self.model[a].regs.items()}
			for s, r in self.model[b].regs.items():
				regs[s] = r.copy()
			self.model[2] = Model(regs)
			cover('combine')
			return True
		k = op[1]
		real = self.real[k]
		m = self.model[k]
		if real is None:
			return True  # container 2 does not exist yet
		if kind == 'set':
			_, _, s, f = op
			if s in m.regs:
				real.rebind(SYMS[s], FACTORIES[s][f])
				cover('rebind')
			else:
				real.bind(SYMS[s], FACTORIES[s][f])
				cover('bind')
			m.regs[s] = Reg(s, f)
			return True
		if kind == 'unbind':
			_, _, s = op
			real.unbind(SYMS[s])
			m.regs.pop(s, None)
			cover('unbind')
			return True
		if kind == 'resolve':
			_, _, s = op
			return self.observe_resolve(k, s)
		if kind == 'invoke':
			_, _, fn, a = op
			try:
				want = self.m_invoke(m, fn, ARGSETS[a])
			except ValueError:
				want = None
			try:
				got = real.invoke(FNS[fn], *ARGSETS[a])
			except ValueError:
				cover('invoke_rejected')
				return want is None
			cover('invoke_ok')
			return want is not None and self.same(got, want)
		raise AssertionError(op)

	def observe_resolve(self, k: int, s: int) -> bool:
		real = self.real[k]
		m = self.model[k]
		try:
			want = self.m_resolve(m, s)
		except ValueError:
			want = None
		try:
			got = real.resolve(SYMS[s])
		except ValueError:
			cover('resolve_rejected')
			return want is None
		cover('resolve_ok')
		return want is not None and self.same(got, want)

	def observe_all(self) -> bool:
		for k in range(3):
			if self.real[k] is None:
				continue
			for s in range(2):
				if self.real[k].can_resolve(SYMS[s]) != (s in self.model[k].regs):
					return False
		for k in range(3):
			if self.real[k] is None:
				continue
			for s in range(2):
				if not self.observe_resolve(k, s):
					return False
				# one instance per binding generation: asking again gives the very same object
				if s in self.model[k].regs and self.model[k].regs[s].inst is not None:
					if not self.observe_resolve(k, s):
						return False
		return True


def run_history(ops: list) -> bool:
	w = World()
	for o in ops:
		if not w.step(OPS[o]):
			return False
		# can_resolve agrees after every step
		for k in range(3):
			if w.real[k] is not None:
				for s in range(2):
					if w.real[k].can_resolve(SYMS[s]) != (s in w.model[k].regs):
						return False
	return w.observe_all()


def first_ok(o1: int) -> bool:
	return O1 is None or o1 == O1


def history3(o1: int, o2: int, o3: int) -> bool:
	"""
	pre: 0 <= o1 < NOPS and 0 <= o2 < NOPS and 0 <= o3 < NOPS
	pre: first_ok(o1)
	post: _
	"""
	return ok(natively(run_history, [decode(o1, NOPS), decode(o2, NOPS), decode(o3, NOPS)]))


# operations that change a container (bind / rebind, unbind, combine): the second operation of the four-step histories is taken from
# these (an observation in second place adds nothing a three-step history has not shown)
STATE_CHANGING = [i for i, o in enumerate(OPS) if o[0] in ('set', 'unbind', 'combine')]


def history4(o1: int, o2: int, o3: int, o4: int) -> bool:
	"""
	pre: 0 <= o1 < NOPS and 0 <= o2 < NOPS and 0 <= o3 < NOPS and 0 <= o4 < NOPS
	pre: first_ok(o1)
	pre: o2 in STATE_CHANGING
	post: _
	"""
	return ok(natively(run_history, [decode(o1, NOPS), decode(o2, NOPS), decode(o3, NOPS), decode(o4, NOPS)]))


def explain_history(*ops: int) -> str:
	w = World()
	out = []
	for o in ops:
		r = w.step(OPS[o])
		out.append(f'{OPS[o]}{"" if r else " <- differs from the reference model"}')
		if not r:
			return '; '.join(out)
	return '; '.join(out) + ('' if w.observe_all() else '; final observation (can_resolve / resolve of every symbol on every container) differs from the reference model')


def classify_history(*ops: int) -> str:
	kinds = [OPS[o][0] for o in ops]
	return 'combine' if 'combine' in kinds else 'single-container'


CLASSIFIERS = {'history3': lambda o1, o2, o3: classify_history(o1, o2, o3), 'history4': lambda o1, o2, o3, o4: classify_history(o1, o2, o3, o4)}
EXPLAIN = {'history3': lambda o1, o2, o3: explain_history(o1, o2, o3), 'history4': lambda o1, o2, o3, o4: explain_history(o1, o2, o3, o4)}
