"""C05 — generated module graphs (see harness.c05_pipeline): pure helpers, no tranp import."""

PKG = 'gm'


def mod(j: int) -> str:
	return f'{PKG}.m{j}'


def cone_dist(edges: dict, a: int) -> dict:
	"""distance from a to every module it (transitively) imports; a itself at 0"""
	dist = {a: 0}
	todo = [a]
	while todo:
		i = todo.pop(0)
		for j in sorted(edges.get(i, [])):
			if j not in dist:
				dist[j] = dist[i] + 1
				todo.append(j)
	return dist


LITERALS = ['1', "'s'", '1.5']


MANY_TYPES = ['int', 'int', 'str', 'int', 'bool', 'int', 'int', 'int', 'int', 'str', 'int', 'int']
MANY_ARGS = {'int': '1', 'str': "'s'", 'bool': 'True'}


def source_of(edges: dict, j: int, variant: int) -> str:
	"""module j: imports one variable per module of each imported module's cone, re-exports it, and uses all of them in a function;
	it also defines a function of 12 parameters (a signature of 13 attributes) that every importer calls"""
	lines = []
	have = {}
	for k in sorted(edges.get(j, [])):
		names = [t for t in sorted(cone_dist(edges, k)) if t not in have]
		for t in names:
			have[t] = k
		lines.append(f'from {mod(k)} import ' + ', '.join([f'many_{k}', *(f'v_{k}_{t}' for t in names)]))
	lines.append('')
	lines.append(f'v_{j}_{j} = {LITERALS[variant]}')
	for t, k in sorted(have.items()):
		lines.append(f'v_{j}_{t} = v_{k}_{t}')
	lines.append('')
	lines.append(f'def many_{j}(' + ', '.join(f'a{i}: {t}' for i, t in enumerate(MANY_TYPES)) + ') -> float:')
	lines.append('\treturn 1.5')
	lines.append('')
	lines.append(f'def main_{j}() -> None:')
	for t in [j, *sorted(have)]:
		lines.append(f'\ty_{t} = v_{j}_{t}')
		lines.append(f'\tprint(y_{t})')
	for k in sorted(edges.get(j, [])):
		lines.append(f'\tr_{k} = many_{k}(' + ', '.join(MANY_ARGS[t] for t in MANY_TYPES) + ')')
		lines.append(f'\tprint(r_{k})')
	return '\n'.join(lines) + '\n'
