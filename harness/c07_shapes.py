"""sizes of the C07 pipeline families without importing tranp (used by checks/c07.py to lay out the case split)"""
SHAPES_N = 16
BASE_TOKENS = [138, 139, 117]
