"""C16 through the real pipeline (closed obligation): spans of the nodes of loaded modules.

For every node reachable through the expandable properties of the entrypoint: begin <= end, every child's span lies inside its
parent's, a terminal's span delimits exactly its text, and a decorated definition's region contains its decorators.
"""
from vlib.prelude import cover, ok

from tv import driver

from rogw.tranp.module.modules import Modules
from rogw.tranp.syntax.node.node import Node

PROGRAMS = [
	'from typing import override\n\nclass Base:\n\tn: int = 0\n\n\t@classmethod\n\tdef make(cls, n: int) -> \'Base\':\n\t\tinst = cls()\n\t\tinst.n = n\n\t\treturn inst\n\n\t@property\n\tdef twice(self) -> int:\n\t\treturn (self.n +\n\t\t\tself.n)\n\n\tdef kind(self) -> str:\n\t\treturn \'base\'\n\nclass Sub(Base):\n\t@override\n\tdef kind(self) -> str:\n\t\tif self.n > 0:\n\t\t\treturn \'sub\'\n\t\telse:\n\t\t\treturn \'zero\'\n\ndef f(xs: list[int], d: dict[str, int]) -> int:\n\tt = 0\n\tfor i, x in enumerate(xs):\n\t\tt += x if i else 0\n\tfor k, v in d.items():\n\t\tt += v\n\tys = [y + 1\n\t\tfor y in xs]\n\treturn t + len(ys)\n',
	'from enum import Enum\n\nclass E(Enum):\n\tA = 1\n\tB = 2\n\ndef g(e: E, s: str) -> str:\n\ttry:\n\t\tif e == E.A:\n\t\t\traise Exception()\n\t\tparts = s.split(\',\')\n\t\treturn parts[0]\n\texcept Exception as x:\n\t\treturn \'\'\n\n\nx = g(E.A,\n\t\'a,b\')\n',
]
NOTES: list = []


def walk(node: Node) -> list:
	out = [(None, node)]
	todo = [node]
	while todo:
		n = todo.pop()
		for k in n.prop_keys():
			v = getattr(n, k)
			for child in (v if isinstance(v, list) else [v]):
				out.append((n, child))
				todo.append(child)
	return out


def offset(lines: list, pos: tuple) -> int:
	"""1-based (line, column) -> offset into the source"""
	return sum(len(ln) + 1 for ln in lines[:pos[0] - 1]) + pos[1] - 1


def check(source: str) -> str | None:
	app = driver.make_app({'c16.main': source}, ['c16.main'])
	root = app.resolve(Modules).load('c16.main').entrypoint
	lines = source.split('\n')
	for parent, node in walk(root):
		sm = node.source_map
		b, e = tuple(sm['begin']), tuple(sm['end'])
		if (b, e) == ((0, 0), (0, 0)):
			cover('no_text')  # nodes without text (Empty, proxies)
			continue
		cover('member')
		if b > e:
			return f'{node!r}: span begins after it ends'
		if parent is not None:
			pm = parent.source_map
			pb, pe = tuple(pm['begin']), tuple(pm['end'])
			if (pb, pe) != ((0, 0), (0, 0)) and not (pb <= b and e <= pe):
				return f'{node!r} {b}..{e} does not lie inside its parent {parent!r} {pb}..{pe}'
		text = source[offset(lines, b):offset(lines, e)]
		if not list(node.prop_keys()) and text.strip() != node.tokens.strip() and '\n' not in text:
			return f'{node!r}: the span delimits {text!r}, the node\'s text is {node.tokens!r}'
		if hasattr(node, 'decorators') and node.decorators:
			cover('decorated')
			if not text.lstrip().startswith('@'):
				return f'{node!r}: the region {text[:30]!r}... does not contain the decorator line'
	return None


def spans_closed() -> bool:
	del NOTES[:]
	for src in PROGRAMS:
		bad = check(src)
		if bad:
			NOTES.append(bad)
	return ok(not NOTES)


EXPLAIN = {'spans_closed': lambda: ' ; '.join(NOTES[:3])}
