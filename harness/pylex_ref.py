"""Reference lexer for the lexical subset of C13 (names, decimal ints/floats with a leading digit, quoted / raw / triple-double-quoted
strings with backslash escapes, the operators tranp and CPython share, brackets spanning lines, comments, blank lines,
blocks indented by a consistent unit).

Pure character code (no `re`) so that CrossHair can run it on the same symbolic buffer as the implementation.
`lex(source)` returns the significant token list [(kind, text)] CPython's `tokenize` produces for the source
(kinds NAME NUMBER STRING OP NEWLINE INDENT DEDENT; COMMENT/NL/ENCODING/ENDMARKER dropped) or None when the source is
outside the subset.  `validate_against_cpython` checks exactly that claim against the real `tokenize` module on concrete
buffers (run by checks/c13.py before any solver job: the encoder validation of DESIGN.md).
"""

LETTERS = 'abcdefghijklmnopqrstuvwxyzABCDEFGHIJKLMNOPQRSTUVWXYZ_'
DIGITS = '0123456789'
SINGLE_OPS = '+-*/%&|^~<>=.,:;()[]{}@'
COMBINED_OPS = ['...', '-=', '+=', '*=', '/=', '%=', '&=', '|=', '^=', '==', '!=', '<=', '>=', '<<', '>>', '->', '**', ':=']
# spellings on which the two lexers are known to be designed differently: outside the subset
CPYTHON_ONLY = ['**=', '<<=', '>>=', '//=', '//', '@=', '<>']
TRANP_ONLY = ['&&', '||', '~=']


def lex(source: str):
	out: list = []
	i = 0
	n = len(source)
	depth = 0
	levels = 0  # open indentation levels
	unit = 0  # width of one level
	unit_char = ''
	at_line_start = True
	line_has_token = False
	while i < n:
		if at_line_start and depth == 0:
			# measure indentation
			j = i
			while j < n and source[j] in ' \t':
				j += 1
			if j >= n:
				i = j
				break
			if source[j] == '\n':  # blank line
				i = j + 1
				continue
			if source[j] == '#':  # comment-only line
				k = source.find('\n', j)
				if k == -1:
					i = n
					break
				i = k + 1
				continue
			ind = source[i:j]
			width = len(ind)
			if width > 0:
				if ' ' in ind and '\t' in ind:
					return None
				if unit == 0:
					unit = width
					unit_char = ind[0]
				if ind[0] != unit_char or width % unit != 0:
					return None
			level = width // unit if unit else 0
			if len(out) == 0 and level > 0:
				return None  # first statement indented
			if level > levels + 1:
				return None  # two levels at once: outside "consistent" layout
			if level == levels + 1:
				out.append(('INDENT', ''))
			else:
				for _ in range(levels - level):
					out.append(('DEDENT', ''))
			levels = level
			i = j
			at_line_start = False
			line_has_token = False
			continue
		ch = source[i]
		if ch == '\n':
			if depth == 0:
				if line_has_token:
					out.append(('NEWLINE', ''))
				at_line_start = True
				line_has_token = False
			i += 1
			continue
		if ch in ' \t':
			i += 1
			continue
		if ch == '#':
			k = source.find('\n', i)
			i = n if k == -1 else k
			continue
		if ch == '\\':
			return None  # line continuation / stray backslash: outside the subset
		if ch in LETTERS:
			j = i + 1
			while j < n and (source[j] in LETTERS or source[j] in DIGITS):
				j += 1
			name = source[i:j]
			if j < n and source[j] in '"\'':
				if name != 'r':
					return None  # other string prefixes (u b f rb ...) are outside the subset
				end = _string_end(source, j)
				if end is None:
					return None
				out.append(('STRING', source[i:end]))
				i = end
			else:
				out.append(('NAME', name))
				i = j
			line_has_token = True
			continue
		if ch in DIGITS:
			j = i + 1
			while j < n and source[j] in DIGITS:
				j += 1
			if j < n and source[j] == '.':
				j += 1
				while j < n and source[j] in DIGITS:
					j += 1
			if j < n and (source[j] in LETTERS or source[j] == '.' or source[j] in DIGITS):
				return None  # 1a, 1.2.3, 1..: outside the subset
			if j - i > 1 and source[i] == '0' and source[i + 1] in DIGITS:
				return None  # leading zeros are a CPython error
			out.append(('NUMBER', source[i:j]))
			i = j
			line_has_token = True
			continue
		if ch in '"\'':
			end = _string_end(source, i)
			if end is None:
				return None
			out.append(('STRING', source[i:end]))
			i = end
			line_has_token = True
			continue
		if ch == '.' and i + 1 < n and source[i + 1] in DIGITS:
			return None  # float without a leading digit: outside the subset
		if ch in SINGLE_OPS or ch == '!':
			for bad in CPYTHON_ONLY:
				if source.startswith(bad, i):
					return None
			for bad in TRANP_ONLY:
				if source.startswith(bad, i):
					return None
			op = None
			for cand in COMBINED_OPS:
				if source.startswith(cand, i):
					op = cand
					break
			if op is None:
				if ch == '!':
					return None
				op = ch
			if op in '([{':
				depth += 1
			elif op in ')]}':
				depth -= 1
				if depth < 0:
					return None
			out.append(('OP', op))
			i += len(op)
			line_has_token = True
			continue
		return None  # $ ? ` and anything else
	if depth != 0:
		return None
	if line_has_token:
		out.append(('NEWLINE', ''))
	for _ in range(levels):
		out.append(('DEDENT', ''))
	return out


def _string_end(source: str, q: int):
	"""index just past the string literal whose opening quote is at q, or None when unterminated / unsupported"""
	n = len(source)
	quote = source[q]
	if source.startswith(quote * 3, q):
		if quote == "'":
			return None  # ''' is outside the subset
		j = q + 3
		while j < n:
			if source[j] == '\\':
				j += 2
				continue
			if source.startswith('"""', j):
				return j + 3
			j += 1
		return None
	j = q + 1
	while j < n:
		c = source[j]
		if c == '\\':
			if j + 1 < n and source[j + 1] == '\n':
				return None  # continuation inside a string: outside the subset
			j += 2
			continue
		if c == '\n':
			return None
		if c == quote:
			return j + 1
		j += 1
	return None


def cpython_significant(source: str):
	"""what the real tokenize module says, in the same shape; None on a tokenizer error"""
	import io
	import token as T
	import tokenize
	out = []
	try:
		for tok in tokenize.tokenize(io.BytesIO(source.encode('utf-8')).readline):
			if tok.type in (T.ENCODING, T.ENDMARKER, T.COMMENT, T.NL):
				continue
			if tok.type == T.NEWLINE:
				out.append(('NEWLINE', ''))
			elif tok.type == T.INDENT:
				out.append(('INDENT', ''))
			elif tok.type == T.DEDENT:
				out.append(('DEDENT', ''))
			elif tok.type == T.NAME:
				out.append(('NAME', tok.string))
			elif tok.type == T.NUMBER:
				out.append(('NUMBER', tok.string))
			elif tok.type == T.STRING:
				out.append(('STRING', tok.string))
			elif tok.type == T.OP:
				out.append(('OP', tok.string))
			else:
				return None
	except (tokenize.TokenError, SyntaxError, IndentationError, ValueError):
		return None
	return out


def validate_against_cpython(alphabet: str, maxlen: int):
	"""-> (buffers compared, buffers inside the subset, list of disagreements). The reference may say None (outside the subset)
	freely; whenever it returns tokens they must be CPython's."""
	import itertools
	n = 0
	inside = 0
	bad = []
	for L in range(maxlen + 1):
		for t in itertools.product(alphabet, repeat=L):
			s = ''.join(t)
			n += 1
			ref = lex(s)
			if ref is None:
				continue
			inside += 1
			real = cpython_significant(s)
			if real != ref:
				bad.append((s, ref, real))
	return n, inside, bad
