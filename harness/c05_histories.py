"""C05 sentence 1, end to end (closed obligation): edit / run / clear histories of generated module graphs through the real pipeline
with the real on-disk caches on a scratch file system; after every run the output obtained with the cache files left behind is
compared with the output of the same run on an empty cache directory.

$VERIF_CASE: {"shape": <name>, "families": [<history family>, ...]}
"""
from vlib.prelude import CASE, cover, known_classes, ok

from harness import c05_pipeline as pl
from harness.c05_graph import cone_dist

SHAPES = {
	'chain3': (3, {0: [1], 1: [2]}),
	'fan3': (3, {0: [1, 2]}),
	'diamond': (4, {0: [1, 2], 1: [3], 2: [3]}),
	'chain4': (4, {0: [1], 1: [2], 2: [3]}),
}
KNOWN_CLASS = 'transitive-import-not-in-symbols-key'
NOTES: list = []


def histories(n: int, families: list) -> list:
	"""ops: ('run', enabled) | ('edit', module, variant, dt) | ('clear',)"""
	out = []
	R, RD = ('run', True), ('run', False)
	for x in range(n):
		if 'edit' in families:
			out.append((f'edit m{x}', [R, ('edit', x, 1, 7.25), R]))
		if 'back' in families:
			out.append((f'edit m{x} and back', [R, ('edit', x, 1, 7.25), R, ('edit', x, 0, 7.25), R]))
		if 'disabled' in families:
			out.append((f'edit m{x}, run disabled, run', [R, ('edit', x, 1, 7.25), RD, R]))
		if 'clear' in families:
			out.append((f'clear, edit m{x}', [R, ('clear',), ('edit', x, 1, 7.25), R]))
		if 'subsecond' in families:
			out.append((f'edit m{x} within the same second', [R, ('edit', x, 1, 0.25), R, ('edit', x, 2, 0.25), R]))
		if 'backwards' in families:
			out.append((f'edit m{x} with an older mtime', [R, ('edit', x, 1, -1000.5), R]))
		if 'mtime-reuse' in families:
			out.append((f'edit m{x} twice, the second time back to the first mtime', [R, ('edit', x, 1, 7.25), R, ('edit', x, 2, -7.25), R]))
		if 'first-disabled' in families:
			out.append((f'disabled first, edit m{x}', [RD, ('edit', x, 1, 7.25), R, R]))
		for y in range(n):
			if 'two' in families and x != y:
				out.append((f'edit m{x}, edit m{y}', [R, ('edit', x, 1, 7.25), R, ('edit', y, 1, 7.25), R]))
			if 'two-one-run' in families and x < y:
				out.append((f'edit m{x} and m{y} together', [R, ('edit', x, 1, 7.25), ('edit', y, 2, 7.25), R]))
	return out


def key_of(edges: dict, state: list, a: int) -> tuple:
	"""what the symbol-table file name of module a covers: its own content and the content of its direct imports"""
	return tuple((j, state[j]) for j in [a, *sorted(edges.get(a, []))])


def cone_of(edges: dict, state: list, a: int) -> tuple:
	return tuple((j, state[j]) for j in sorted(cone_dist(edges, a)))


def run_history(n: int, edges: dict, name: str, ops: list, tolerate_known: bool) -> str | None:
	w = pl.World(edges, n)
	try:
		seen: list = []  # (state) of the enabled runs since the last clear
		for i, op in enumerate(ops):
			if op[0] == 'edit':
				w.edit(op[1], op[2], op[3])
			elif op[0] == 'clear':
				w.clear()
				seen = []
			else:
				enabled = op[1]
				listing = [(f, pl.os.path.getmtime(f), pl.os.path.getsize(f)) for f in w.cache_files()]
				warm = w.run_warm(enabled)
				cold = w.run_cold()
				cover('run')
				if not enabled:
					cover('disabled-run')
					after = [(f, pl.os.path.getmtime(f), pl.os.path.getsize(f)) for f in w.cache_files()]
					if after != listing:
						return f'{name}: the run with caching disabled changed the cache directory: {sorted(set(after) ^ set(listing))[:3]}'
				for a in range(n):
					k = pl.mod(a)
					if 'FAILED' in cold[k]:
						return f'{name}: harness problem, the cold run fails: {cold[k]}'
					if warm[k] == cold[k]:
						continue
					# the listed finding: some module b of a's dependency cone (a included) finds a symbol-table file written for another
					# state of b's own cone, because b's key (own content + direct imports) is the same; a's output inherits b's stale types
					stale = [s for s in seen for b in sorted(cone_dist(edges, a)) if key_of(edges, s, b) == key_of(edges, w.state, b) and cone_of(edges, s, b) != cone_of(edges, w.state, b)]
					if stale and tolerate_known and enabled:
						cover('known-class')
						NOTES.append(f'{name} (step {i}): {k} is restored from the symbol table of source state {stale[0]} (listed finding {KNOWN_CLASS})')
						continue
					wl = [ln for ln in warm[k].split('\n') if ln not in cold[k].split('\n')]
					cl = [ln for ln in cold[k].split('\n') if ln not in warm[k].split('\n')]
					return f'{name}: after step {i} ({op}) source state {w.state}: output of {k} with the cache left behind {wl[:2]!r} differs from the output on an empty cache directory {cl[:2]!r}'
				if enabled:
					seen.append(list(w.state))
		return None
	finally:
		w.close()


def histories_closed() -> bool:
	shape = CASE.get('shape', 'chain3')
	families = CASE.get('families', ['edit'])
	n, edges = SHAPES[shape]
	tolerate = KNOWN_CLASS in known_classes('C05')
	del NOTES[:]
	for name, ops in histories(n, families):
		cover('history')
		cover('member')
		bad = run_history(n, edges, f'{shape}: {name}', ops, tolerate)
		if bad:
			NOTES.append(bad)
			return ok(False)
	return ok(True)


def explain_histories() -> str:
	return ' ; '.join(NOTES[-3:])


EXPLAIN = {'histories_closed': explain_histories}
