"""C18 — fragment splitting helpers respect bracket and quote nesting.

Real code under test (imported from /repo at run time):
  BlockParser.break_separator / break_last_block / parse_bracket / parse_pair   (rogw/tranp/view/helper/block.py)
  DecoratorHelper                                                                (rogw/tranp/view/helper/decorator.py)
  CppViewHelper.Param.parse                                                      (rogw/tranp/implements/cpp/view/cpp_view_helper.py)
  is_quoted_literal                                                              (rogw/tranp/lang/string.py)

Symbolic: the fragment text (S). Case split (F): alphabet / delimiter / bracket kind / first character.
Domain (the property's "bracket-balanced fragment with simple quoted strings"): `wellformed` below.
"""
from vlib.prelude import CASE, cover, ok

from rogw.tranp.view.helper.block import BlockParser
from rogw.tranp.view.helper.decorator import DecoratorHelper
from rogw.tranp.implements.cpp.view.cpp_view_helper import CppViewHelper
from rogw.tranp.lang.string import is_quoted_literal

ALPHA: str = CASE.get('alpha', 'a,()[] ')
DELIM: str = CASE.get('d', ',')
MAXLEN: int = int(CASE.get('n', 4))
FIRST: str = CASE.get('first', '')  # '' = any, else required first character; '∅' = empty text only
BR: str = CASE.get('br', '()')

OPEN = {'(': ')', '[': ']', '{': '}', '<': '>'}
CLOSE = ')]}>'
QUOTES = '"\''


# ---------------------------------------------------------------- independent reference model
OPAQUE_QUOTES = [False]  # the split laws read a quoted string as opaque (any bracket, the other quote kind); the other laws keep the narrow reading


def scan(text: str):
	"""-> list of (char, depth_before, in_quote) or None when not well formed.

	well formed: brackets balanced and properly nested outside quotes; quotes closed; no backslash;
	a quoted string holds no quote character and its own brackets are balanced among themselves; with OPAQUE_QUOTES
	(the split laws, since c9b4f9b) a quoted string may hold any bracket and the other quote kind.
	"""
	out = []
	stack: list[str] = []
	quote = ''
	qstack: list[str] = []
	for ch in text:
		if ch == '\\':
			return None
		if quote:
			out.append((ch, len(stack), True))
			if ch == quote:
				if qstack and not OPAQUE_QUOTES[0]:
					return None
				quote = ''
				qstack = []
			elif OPAQUE_QUOTES[0]:
				pass
			elif ch in QUOTES:
				return None
			elif ch in OPEN:
				qstack.append(OPEN[ch])
			elif ch in CLOSE:
				if not qstack or qstack.pop() != ch:
					return None
			continue
		if ch in QUOTES:
			out.append((ch, len(stack), True))
			quote = ch
			continue
		if ch in OPEN:
			out.append((ch, len(stack), False))
			stack.append(OPEN[ch])
		elif ch in CLOSE:
			if not stack or stack.pop() != ch:
				return None
			out.append((ch, len(stack), False))
		else:
			out.append((ch, len(stack), False))
	if stack or quote:
		return None
	return out


def wellformed(text: str) -> bool:
	return scan(text) is not None


def top_cuts(text: str, d: str) -> list[int]:
	sc = scan(text)
	assert sc is not None
	return [i for i, (ch, depth, inq) in enumerate(sc) if ch == d and depth == 0 and not inq]


def ref_split(text: str, d: str) -> list[str]:
	"""cut at every top-level delimiter except one that ends the text; pieces stripped of blanks"""
	if text == '':
		return []
	pieces = []
	begin = 0
	for i in top_cuts(text, d):
		if i + 1 < len(text):
			pieces.append(text[begin:i].strip(' '))
			begin = i + 1
	pieces.append(text[begin:].strip(' '))
	return pieces


def in_alpha(text: str) -> bool:
	return all(c in ALPHA for c in text)


def first_ok(text: str) -> bool:
	if FIRST == '':
		return True
	if FIRST == '∅':
		return text == ''
	return text.startswith(FIRST)


# ---------------------------------------------------------------- L1-L3 break_separator
def split_laws(text: str) -> bool:
	"""
	pre: len(text) <= MAXLEN
	pre: in_alpha(text)
	pre: first_ok(text)
	pre: wellformed_opaque(text)
	post: _
	"""
	OPAQUE_QUOTES[0] = True
	try:
		return _split_laws(text)
	finally:
		OPAQUE_QUOTES[0] = False


def wellformed_opaque(text: str) -> bool:
	OPAQUE_QUOTES[0] = True
	try:
		return scan(text) is not None
	finally:
		OPAQUE_QUOTES[0] = False


def _split_laws(text: str) -> bool:
	got = BlockParser.break_separator(text, DELIM)
	want = ref_split(text, DELIM)
	if len(want) > 1:
		cover('cut')
	if any(inq and ch == DELIM for ch, _, inq in scan(text)):
		cover('delim_in_quote')
	if any(depth > 0 and ch == DELIM for ch, depth, _ in scan(text)):
		cover('delim_in_bracket')
	l1 = got == want
	l2 = all(wellformed(p) for p in got)
	l3 = DELIM.join(got).replace(' ', '') == text.replace(' ', '')
	return ok(l1 and l2 and l3)


def explain_split(text: str) -> str:
	OPAQUE_QUOTES[0] = True
	try:
		return f'break_separator({text!r}, {DELIM!r}) = {BlockParser.break_separator(text, DELIM)!r}, top-level split = {ref_split(text, DELIM)!r}'
	finally:
		OPAQUE_QUOTES[0] = False


# ---------------------------------------------------------------- L4 break_last_block
def balanced_for(text: str, br: str) -> bool:
	"""balanced with respect to one bracket kind only (break_last_block looks at nothing else)"""
	depth = 0
	for ch in text:
		if ch == br[0]:
			depth += 1
		elif ch == br[1]:
			depth -= 1
			if depth < 0:
				return False
	return depth == 0


def last_block_law(prefix: str, inside: str) -> bool:
	"""
	pre: len(prefix) + len(inside) <= MAXLEN
	pre: in_alpha(prefix) and in_alpha(inside)
	pre: first_ok(prefix + BR[0])
	pre: balanced_for(prefix, BR) and balanced_for(inside, BR)
	post: _
	"""
	text = prefix + BR[0] + inside + BR[1]
	if BR[0] in prefix:
		cover('earlier_group')
	if BR[0] in inside:
		cover('nested_group')
	return ok(BlockParser.break_last_block(text, BR) == (prefix, inside))


def explain_last_block(prefix: str, inside: str) -> str:
	text = prefix + BR[0] + inside + BR[1]
	return f'break_last_block({text!r}, {BR!r}) = {BlockParser.break_last_block(text, BR)!r}, expected {(prefix, inside)!r}'


# ---------------------------------------------------------------- L5 parse_bracket
def ref_groups(text: str, br: str) -> list[str]:
	"""all groups of one kind (outside quotes and outside other-kind groups handled by scan), in order of their opening bracket"""
	sc = scan(text)
	assert sc is not None
	out = []
	for i, (ch, depth, inq) in enumerate(sc):
		if ch == br[0] and not inq:
			# find matching close: first later position with same depth and closing char
			for j in range(i + 1, len(text)):
				cj, dj, qj = sc[j]
				if cj == br[1] and not qj and dj == depth:
					out.append(text[i:j + 1])
					break
	return out


def name_plain(name: str) -> bool:
	return all(c not in '()[]{}<>"\' ,:=' for c in name)


def bracket_law(name: str, inside: str) -> bool:
	"""
	pre: len(name) <= 1 and len(inside) <= MAXLEN
	pre: in_alpha(name) and in_alpha(inside)
	pre: first_ok(inside)
	pre: name_plain(name)
	pre: wellformed(inside)
	pre: len(ref_groups(BR[0] + inside + BR[1], BR)) <= 2
	post: _
	"""
	# at most one nested group: deeper / adjacent nesting is outside the claim (DESIGN.md C18, parse_bracket)
	# domain: the text is one (optionally named) group of the requested kind, as at the call site in py2cpp and in the unit tests
	text = name + BR[0] + inside + BR[1]
	got = BlockParser.parse_bracket(text, BR)
	groups = ref_groups(text, BR)
	cover('group')
	if len(groups) > 1:
		cover('several_groups')
	# the first block returned is the whole group; everything returned is a group of the text, in order, without repeats
	if len(got) == 0 or got[0] != groups[0]:
		return ok(False)
	pos = 0
	for g in got:
		if g not in groups[pos:]:
			return ok(False)
		pos = groups.index(g, pos) + 1
	return ok(True)


def explain_bracket(name: str, inside: str) -> str:
	text = name + BR[0] + inside + BR[1]
	return f'parse_bracket({text!r}, {BR!r}) = {BlockParser.parse_bracket(text, BR)!r}, groups of the text = {ref_groups(text, BR)!r}'


# ---------------------------------------------------------------- L6 parse_pair (flat)
def atom_ok(text: str) -> bool:
	return len(text) > 0 and wellformed(text) and ' ' not in text and BR[0] not in text and BR[1] not in text and len(top_cuts(text, DELIM)) == 0


def pair_law(key: str, value: str) -> bool:
	"""
	pre: len(key) + len(value) <= MAXLEN
	pre: in_alpha(key) and in_alpha(value)
	pre: first_ok(key)
	pre: atom_ok(key) and atom_ok(value)
	post: _
	"""
	text = BR[0] + key + DELIM + ' ' + value + BR[1]
	if DELIM in key or DELIM in value:
		cover('delim_inside')
	return ok(BlockParser.parse_pair(text, BR, DELIM) == [(key, value)])


def explain_pair(key: str, value: str) -> str:
	text = BR[0] + key + DELIM + ' ' + value + BR[1]
	return f'parse_pair({text!r}, {BR!r}, {DELIM!r}) = {BlockParser.parse_pair(text, BR, DELIM)!r}, expected {[(key, value)]!r}'


# ---------------------------------------------------------------- L7 DecoratorHelper
def path_ok(path: str) -> bool:
	return len(path) > 0 and all(c in 'ab._' for c in path)


def decorator_law(path: str, args: str) -> bool:
	"""
	pre: len(path) <= 2 and len(args) <= MAXLEN
	pre: path_ok(path)
	pre: in_alpha(args)
	pre: first_ok(args)
	pre: wellformed(args)
	post: _
	"""
	h = DecoratorHelper(path + '(' + args + ')')
	if h.path != path or h.join_args != args:
		return ok(False)
	pieces = ref_split(args, ',')
	if len(pieces) > 1:
		cover('several_args')
	got = h.args
	last_by_label: dict[str, str] = {}
	for index, piece in enumerate(pieces):
		if '=' in piece:
			cover('labelled')
			label, rest = piece.split('=', 1)
			last_by_label[label] = rest
		else:
			last_by_label[str(index)] = piece
	return ok(got == last_by_label)


def explain_decorator(path: str, args: str) -> str:
	h = DecoratorHelper(path + '(' + args + ')')
	return f'DecoratorHelper({path + "(" + args + ")"!r}): path={h.path!r} join_args={h.join_args!r} args={h.args!r}; top-level arguments = {ref_split(args, ",")!r}'


def decorator_noargs_law(path: str) -> bool:
	"""
	pre: len(path) <= 4
	pre: path_ok(path)
	post: _
	"""
	h = DecoratorHelper(path)
	return ok(h.path == path and h.args == {} and h.join_args == '')


# ---------------------------------------------------------------- L8 Param.parse
def type_ok(t: str) -> bool:
	return len(t) > 0 and wellformed(t) and t == t.strip(' ') and len(top_cuts(t, '=')) == 0 and '  ' not in t


def name_ok(n: str) -> bool:
	return len(n) > 0 and all(c in 'ab_' for c in n)


def default_ok(d: str) -> bool:
	return wellformed(d) and d == d.strip(' ') and len(top_cuts(d, '=')) == 0


NAME: str = CASE.get('name', 'n')
MAXDEF: int = int(CASE.get('nd', 2))


def param_law(var_type: str, default: str) -> bool:
	"""
	pre: len(var_type) <= MAXLEN and len(default) <= MAXDEF
	pre: in_alpha(var_type) and in_alpha(default)
	pre: first_ok(var_type)
	pre: type_ok(var_type) and default_ok(default)
	post: _
	"""
	name = NAME
	text = var_type + ' ' + name + (' = ' + default if default else '')
	p = CppViewHelper.Param.parse(text)
	if default:
		cover('with_default')
	if ' ' in var_type:
		cover('type_with_blank')
	if '<' in var_type:
		cover('template_type')
	return ok((p.var_type, p.symbol, p.default_value) == (var_type, name, default))


def explain_param(var_type: str, default: str) -> str:
	name = NAME
	text = var_type + ' ' + name + (' = ' + default if default else '')
	p = CppViewHelper.Param.parse(text)
	return f'Param.parse({text!r}) = {(p.var_type, p.symbol, p.default_value)!r}, expected {(var_type, name, default)!r}'


# ---------------------------------------------------------------- L9 is_quoted_literal
def quoted_law(text: str) -> bool:
	"""
	pre: 2 <= len(text) <= MAXLEN
	pre: in_alpha(text)
	pre: first_ok(text)
	post: _
	"""
	q = DELIM
	want = text[0] == q and text[-1] == q and q not in text[1:-1]
	if want:
		cover('literal')
	return ok(is_quoted_literal(text, q) == want)


CLASSIFIERS: dict = {}
EXPLAIN = {
	'split_laws': explain_split,
	'last_block_law': explain_last_block,
	'bracket_law': explain_bracket,
	'pair_law': explain_pair,
	'decorator_law': explain_decorator,
	'param_law': explain_param,
}
