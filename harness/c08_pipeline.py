"""C08 — renaming commutes with transpilation, through the real pipeline on a template program (finite case split).

Real code: the complete in-memory pipeline (tv/driver.py). P0 is a template program whose user identifiers are neutral base names;
a renaming r maps each of them to a name from a small adversarial pool (names that are prefixes / suffixes of each other, share a
prefix with a class name, reverse the lexicographic order, contain double underscores). Checked: transpile(r(P0)) == r(transpile(P0)).
Symbolic (F): the choice of name per identifier group. Each path is one concrete renaming; Lark and Jinja run concretely.
"""
import re

from vlib.prelude import CASE, cover, decode, natively, ok

from tv import driver

P0 = '''from collections.abc import Callable
from enum import Enum

def qh0(fn: Callable[[int], int], x: int) -> int:
	return fn(x)

class Qa0:
	qf0: int

	def __init__(self, n: int) -> None:
		self.qf0 = n

	def qm0(self, qp0: int) -> int:
		return self.qf0 + qp0

class Qb0:
	@classmethod
	def qm1(cls, n: int) -> Qa0:
		return Qa0(n)

class Qe0(Enum):
	Qx0 = 10
	Qy0 = 20

def qg0(n: int) -> Qa0:
	return Qa0(n)

def qr0(qs0: int, qt0: int) -> int:
	ql0 = Qb0.qm1(2)
	ql1 = qg0(3)
	ql2 = Qa0(4)
	qv0 = qh0(lambda v: v * qs0 + qt0, 3)

	def qc0(w: int) -> int:
		return w * qt0 - qs0

	ql3 = Qe0.Qy0.value
	return ql0.qm0(ql3) + ql1.qm0(qv0) + ql2.qf0 + qc0(1)
'''

# identifier groups: (base names, [alternative spellings of the group])
GROUPS = [
	(['Qa0', 'Qb0', 'qg0'], [['Item', 'ItemBox', 'Item_of'], ['Item', 'Crate', 'produce'], ['It', 'Item', 'it'], ['A__b', 'A__', 'a__b']]),
	(['Qx0', 'Qy0'], [['Idle', 'FastIdle'], ['Idle', 'Turbo'], ['IdleFast', 'Idle'], ['A', 'AA']]),
	(['qs0', 'qt0'], [['scale', 'bias'], ['bias', 'scale'], ['amp', 'offset'], ['n_', 'n__']]),
	(['qf0', 'qm0', 'qm1', 'qp0'], [['n', 'get', 'build', 'k'], ['val', 'val_of', 'val_', 'va'], ['x', 'xx', 'xxx', 'x_']]),
	(['ql0', 'ql1', 'ql2', 'ql3', 'qv0', 'Qe0', 'qr0', 'qh0', 'qc0'], [['b', 'c', 'd', 'm', 'f', 'Modes', 'run', 'apply', 'inner'], ['item', 'item2', 'item_', 'mode', 'total', 'Mode', 'main_', 'app', 'apply_'], ['z', 'y', 'x2', 'w2', 'v2', 'U', 't', 's', 'r']]),
]
P1 = '''from enum import Enum

class Qe0(Enum):
	Qx0 = 10
	Qy0 = 20
	Qz0 = 30

def qr0() -> int:
	ql0 = Qe0.Qx0.value
	ql1 = Qe0.Qy0.value
	ql2 = Qe0.Qy0
	return ql0 + ql1 + Qe0.Qz0.value
'''
GROUPS1 = [
	(['Qx0', 'Qy0', 'Qz0'], [['Idle', 'FastIdle', 'Run'], ['Idle', 'Turbo', 'Run'], ['A', 'AA', 'AAA'], ['X_', '_X_', '__X_'], ['Run', 'Idle', 'FastIdle'], ['Idle', 'Run', 'RunIdle']]),
	(['ql0', 'ql1', 'ql2'], [['a', 'b', 'm'], ['v', 'v2', 'v_'], ['Idle_', 'idle', 'i']]),
	(['Qe0', 'qr0'], [['Modes', 'code'], ['Idle_Modes', 'idle_code'], ['M', 'm_']]),
]
P2 = '''class Qb0:
	qf0: int

	def __init__(self, qo0: 'Qb0', qm0: int) -> None:
		self.qf0 = qm0
		qo0.qf0 = 5
		self.qs0(qm0)

	def qs0(self, qm0: int) -> None:
		self.qf0 = qm0 + 1

class Qc0:
	qf1: int

	def __init__(self, qf1: int) -> None:
		self.qf1 = qf1

class Qh0:
	def qk0(self) -> Qc0:
		return Qc0(1)

def qr0(qi0: list[Qc0]) -> None:
	qi0.sort(key=lambda qe0: qe0.qf1)
'''
GROUPS2 = [
	(['qo0', 'qs0'], [['other', 'setup'], ['selfish', 'setup'], ['other', 'post__init__'], ['self_', 'do__init__'], ['myself', 'init'], ['selfother', 'x__init__']]),
	(['qe0', 'qf1', 'qi0'], [['entry', 'value', 'items'], ['e', 'value', 'items'], ['v', 'value', 'values'], ['a', 'b', 'ab'], ['it', 'item', 'items'], ['value_', 'value', 'value__']]),
	(['Qc0', 'Qh0', 'qk0', 'Qb0', 'qf0', 'qm0', 'qr0'], [['Cursor', 'Holder', 'cursor', 'Box', 'n', 'm', 'order'], ['IteratorState', 'Holder', 'cursor', 'Box', 'n', 'm', 'order'], ['ItemsViewer', 'Iterator_', 'iterator', 'Box', 'n', 'm', 'order'], ['Cursor', 'CursorHolder', 'Cursor_', 'selfBox', 'self_n', 'selfm', 'sort']]),
]
P3 = '''class Qt1:
	class Ql1:
		qw1: int

		def __init__(self, qw1: int) -> None:
			self.qw1 = qw1

	qr1: 'Qt1.Ql1'

	def __init__(self, qw1: int) -> None:
		self.qr1 = Qt1.Ql1(qw1)

	def qf2(self) -> 'Qt1.Ql1':
		return self.qr1

def qm2(qt2: Qt1) -> int:
	ql2 = qt2.qf2()
	qo2 = Qt1.Ql1(2)
	qs2 = [ql2, qo2]
	return ql2.qw1 + qo2.qw1 + len(qs2)

def qu2(qv2: list[int], qk2: int) -> int:
	qa2 = 0
	for qe2 in qv2:
		if qe2 > qk2:
			qx2 = qe2 - qk2
			qa2 = qa2 + qx2
		else:
			qa2 = qa2 + qe2
	return qa2
'''
GROUPS3 = [
	(['Qt1', 'Ql1'], [['Tree', 'Leaf'], ['Tree', 'TreeNode'], ['Tree', 'NodeOfTree'], ['Le', 'Leaf'], ['T', 'TT'], ['Leaf', 'Lea']]),
	(['qa2', 'qx2', 'qe2', 'qk2'], [['total', 'extra', 'value', 'limit'], ['total', 'total_over', 'value', 'limit'], ['total', 'totals', 'limit_v', 'limit'], ['t', 't2', 'tt', 't_'], ['extra_total', 'extra', 'ex', 'e']]),
	(['qw1', 'qr1', 'qf2', 'qm2', 'qt2', 'ql2', 'qo2', 'qs2', 'qu2', 'qv2'], [['weight', 'root', 'first', 'measure', 'tree', 'leaf', 'other', 'leaves', 'summarize', 'values'], ['w', 'ww', 'www', 'w_', 'w__w', 'w1', 'w2', 'w12', 'ws', 'w_s']]),
]
TEMPLATE: int = int(CASE.get('template', 0))
_BASE: dict = {}


def rename(text: str, mapping: dict) -> str:
	pattern = re.compile(r'\b(' + '|'.join(re.escape(k) for k in sorted(mapping, key=len, reverse=True)) + r')\b')
	return pattern.sub(lambda m: mapping[m.group(1)], text)


def check_renaming(choices: list) -> bool:
	mapping = {}
	groups, program = [(GROUPS, P0), (GROUPS1, P1), (GROUPS2, P2), (GROUPS3, P3)][TEMPLATE]
	for (bases, pool), c in zip(groups, choices):
		for b, new in zip(bases, pool[c]):
			mapping[b] = new
	if len(set(mapping.values())) != len(mapping):
		return True  # not injective: outside the property
	if 'out' not in _BASE:
		_BASE['out'] = driver.transpile(program)
	expected = rename(_BASE['out'], mapping)
	renamed = rename(program, mapping)
	if renamed == program or any(b in renamed for b in mapping):
		raise AssertionError('renaming did not apply (harness defect)')
	actual = driver.transpile(renamed)
	cover('renaming')
	return actual == expected


G0 = CASE.get('g0')


def renaming_law(c0: int, c1: int, c2: int, c3: int, c4: int) -> bool:
	"""
	pre: 0 <= c0 < 4 and 0 <= c1 < 4 and 0 <= c2 < 4 and 0 <= c3 < 3 and 0 <= c4 < 3
	pre: G0 is None or (c0 * 4 + c1) == G0
	post: _
	"""
	return ok(natively(check_renaming, [decode(c0, 4), decode(c1, 4), decode(c2, 4), decode(c3, 3), decode(c4, 3)]))


def enum_renaming_law(c0: int, c1: int, c2: int) -> bool:
	"""
	pre: 0 <= c0 < 6 and 0 <= c1 < 3 and 0 <= c2 < 3
	post: _
	"""
	return ok(natively(check_renaming, [decode(c0, 6), decode(c1, 3), decode(c2, 3)]))


def ctor_renaming_law(c0: int, c1: int, c2: int) -> bool:
	"""
	pre: 0 <= c0 < 6 and 0 <= c1 < 6 and 0 <= c2 < 4
	post: _
	"""
	return ok(natively(check_renaming, [decode(c0, 6), decode(c1, 6), decode(c2, 4)]))


def nested_renaming_law(c0: int, c1: int, c2: int) -> bool:
	"""
	pre: 0 <= c0 < 6 and 0 <= c1 < 5 and 0 <= c2 < 2
	post: _
	"""
	return ok(natively(check_renaming, [decode(c0, 6), decode(c1, 5), decode(c2, 2)]))


def explain_renaming(*choices: int) -> str:
	mapping = {}
	groups, program = [(GROUPS, P0), (GROUPS1, P1), (GROUPS2, P2), (GROUPS3, P3)][TEMPLATE]
	for (bases, pool), c in zip(groups, choices):
		for b, new in zip(bases, pool[c]):
			mapping[b] = new
	expected = rename(driver.transpile(program), mapping)
	actual = driver.transpile(rename(program, mapping))
	diff = [(e, a) for e, a in zip(expected.split('\\n'), actual.split('\\n')) if e != a][:3]
	return f'renaming {mapping}: transpile(r(P)) != r(transpile(P)); first differing lines (expected, actual): {diff!r}'


CLASSIFIERS: dict = {}
EXPLAIN = {'renaming_law': explain_renaming, 'enum_renaming_law': explain_renaming, 'ctor_renaming_law': explain_renaming, 'nested_renaming_law': explain_renaming}
