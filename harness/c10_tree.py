"""C10 — tree addressing is a bijection and node resolution is order-independent.

Real code: ASTFinder.full_pathfy/pluck/exists/find, EntryPath.*, EntryCache.*, DSN.*, Nodes.by/parent/children/siblings/ancestor/id/values,
NodeResolver.resolve, Resolver; EntryOfLark over lark.Tree/Token/None (no Lark parsing involved).
Symbolic (F): the shape of the tree - tag sequences of the children / grandchildren / a great-grandchild, a "wide" flag that adds
nine same-tag leaves (two-digit indices) - and the order in which nodes are queried. Each path is one concrete tree; the real
code runs natively after the symbolic decode.  O4 uses the real symbol_mapping() and node classes on synthetic real-tag trees.
"""
import itertools

import lark

from vlib.prelude import CASE, cover, decode, natively, ok

from rogw.tranp.errors import Errors
from rogw.tranp.implements.syntax.lark.entry import EntryOfLark
from rogw.tranp.lang.di import DI
from rogw.tranp.lang.locator import Invoker, Locator
from rogw.tranp.module.types import ModulePath
from rogw.tranp.providers.module import module_path_dummy
from rogw.tranp.providers.syntax.resolver import symbol_mapping
from rogw.tranp.syntax.ast.entry import Entry
from rogw.tranp.syntax.ast.finder import ASTFinder
from rogw.tranp.syntax.ast.path import EntryPath
from rogw.tranp.syntax.ast.query import Query
from rogw.tranp.syntax.ast.resolver import SymbolMapping
from rogw.tranp.syntax.node.node import Node
from rogw.tranp.syntax.node.query import Nodes
from rogw.tranp.syntax.node.resolver import NodeResolver

TAGS = CASE.get('tags', ['a', 'b', None])  # None = empty slot (lark passes None children for unmatched optionals)
MAXKIDS: int = int(CASE.get('kids', 3))
MAXGRAND: int = int(CASE.get('grand', 2))
WIDE: int = int(CASE.get('wide', 0))  # extra same-tag leaves appended to the root (9 -> two-digit indices)
KIDS_CODE = CASE.get('kids_code')  # children sequence fixed per process (case split)


def sequences(tags: list, maxlen: int) -> list:
	out = []
	for n in range(maxlen + 1):
		out.extend(itertools.product(tags, repeat=n))
	return out


KID_SEQS = sequences(TAGS, MAXKIDS)
GRAND0_SEQS = sequences(TAGS, MAXGRAND)
GRAND1_SEQS = sequences([t for t in TAGS if t is not None], MAXGRAND)


class Shape:
	"""independent description of a tree: nested (tag, [children]) with None for empty slots"""

	def __init__(self, kids: tuple, g0: tuple, g1: tuple, deep: bool) -> None:
		def leaf(t):
			return None if t is None else (t, [])
		children = []
		for i, t in enumerate(kids):
			if t is None:
				children.append(None)
			elif i == 0 and len(g0):
				gk = [leaf(u) for u in g0]
				if deep and gk[0] is not None:
					gk[0] = (gk[0][0], [('a', [])])
				children.append((t, gk))
			elif i == 1 and len(g1):
				children.append((t, [leaf(u) for u in g1]))
			else:
				children.append((t, []))
		for _ in range(WIDE):
			children.append(('a', []))
		self.root = ('r', children)

	def to_lark(self, node=None):
		node = node or self.root
		tag, children = node
		if len(children) == 0 and tag != 'r':
			return lark.Tree(tag, [lark.Token('T', 'v')])
		return lark.Tree(tag, [None if c is None else self.to_lark(c) for c in children])

	def reference_paths(self) -> list:
		"""[(path, parent_path, tag, depth)] in document order, by the documented path rule:
		a child is addressed by its tag alone when no sibling shares the tag, else by tag[index among all siblings]"""
		out = []

		def walk(node, path, parent):
			tag, children = node
			out.append((path, parent, tag))
			names = [('__empty__' if c is None else c[0]) for c in children]
			if len(children) == 0 and tag != 'r':
				names = ['T']
				children = [('T', None)]
			for i, c in enumerate(children):
				name = names[i]
				elem = name if names.count(name) == 1 else f'{name}[{i}]'
				sub = f'{path}.{elem}'
				if c is None or c[1] is None:
					out.append((sub, path, name))
				else:
					walk(c, sub, path)

		walk(self.root, 'r', '')
		return out


def make_nodes(tree: lark.Tree, mapping: SymbolMapping) -> Nodes:
	di = DI()
	di.bind(Locator, lambda: di)
	di.bind(Invoker, lambda: di.invoke)
	di.bind(Query[Node], Nodes)
	di.bind(NodeResolver, NodeResolver)
	di.bind(ModulePath, module_path_dummy)
	di.bind(SymbolMapping, lambda: mapping)
	di.bind(Entry, lambda: EntryOfLark(tree))
	return di.resolve(Query[Node])


class NA(Node):
	pass


class NB(Node):
	pass


class NR(Node):
	pass


class NT(Node):
	"""fallback class (terminals, empty slots)"""


# tag 'b' deliberately has no node class (like function_def_raw, parameters, arguments in the real mapping): parent() must skip it,
# siblings()/children() must not
SYNTH_MAPPING = SymbolMapping(symbols={NA: ['a', 'c'], NR: ['r']}, fallback=NT)
MAPPED = ('a', 'c', 'r')


def check_tree(kids: tuple, g0: tuple, g1: tuple, deep: bool) -> bool:
	shape = Shape(kids, g0, g1, deep)
	tree = shape.to_lark()
	root = EntryOfLark(tree)
	finder = ASTFinder()
	ref = shape.reference_paths()
	ref_paths = [p for p, _, _ in ref]
	paths = finder.full_pathfy(root)
	# O1 bijection: exactly one path per entry, in document order, by the documented rule; lookup returns that very entry
	if list(paths.keys()) != ref_paths:
		return False
	for p, e in paths.items():
		got = finder.pluck(root, p)
		if got.source is not e.source and not (got.source is None and e.source is None and got.name == e.name):
			return False
		if not finder.exists(root, p):
			return False
	if len(ref_paths) > 1:
		cover('nontrivial')
	if any('[' in p for p in ref_paths):
		cover('indexed')
	if any('[1' in p and ']' in p and p[p.index('[1') + 2] != ']' for p in ref_paths):
		cover('two_digit_index')
	# a path with an unused last tag / an out-of-range index does not exist
	for p, parent, tag in ref[1:]:
		if finder.exists(root, f'{parent}.zz'):
			return False
		if finder.exists(root, f'{parent}.{tag}[{99}]'):
			return False
	# O2 ids follow document order and are dense; O3 structural queries agree with the shape
	nodes = make_nodes(tree, SYNTH_MAPPING)
	for i, p in enumerate(ref_paths):
		if nodes.id(p) != i or not nodes.exists(p):
			return False
	if nodes.exists('r.zz') or nodes.id('r.zz') != -1:
		return False
	by_parent: dict = {}
	for p, parent, tag in ref:
		by_parent.setdefault(parent, []).append(p)
	for p, parent, tag in ref:
		want_children = by_parent.get(p, [])
		if [n.full_path for n in nodes.children(p)] != want_children:
			return False
		if parent:
			if [n.full_path for n in nodes.siblings(p)] != by_parent[parent]:
				return False
			# parent(): nearest enclosing entry whose tag has a node class
			q = parent
			while EntryPath(q).last_tag not in MAPPED:
				q = q.rsplit('.', 1)[0]
			if q != parent:
				cover('unmapped_parent')
			if nodes.parent(p).full_path != q:
				return False
			# ancestor(): nearest enclosing entry with the tag, including the entry itself (documented via the path elements)
			for want_tag in ('a', 'b', 'r'):
				chain = []
				q = p
				while q:
					chain.append(q)
					q = q.rsplit('.', 1)[0] if '.' in q else ''
				want = None
				for q in chain:
					if EntryPath(q).last_tag == want_tag:
						want = q
						break
				try:
					got_anc = nodes.ancestor(p, want_tag).full_path
				except Errors.NodeNotFound:  # documented; a ValueError from list.index escaped here before bbedb69
					got_anc = None
				if got_anc != want:
					return False
		# by() returns a node of the mapped class with that path; asking twice gives the same object
		n1 = nodes.by(p)
		if n1.full_path != p or nodes.by(p) is not n1:
			return False
		want_cls = {'a': NA, 'c': NA, 'r': NR}.get(tag, NT)
		if type(n1) is not want_cls:
			return False
	return True


def tree_laws(kc: int, g0c: int, g1c: int, deep: bool) -> bool:
	"""
	pre: 0 <= kc < len(KID_SEQS) and 0 <= g0c < len(GRAND0_SEQS) and 0 <= g1c < len(GRAND1_SEQS)
	pre: KIDS_CODE is None or kc == KIDS_CODE
	post: _
	"""
	kids = KID_SEQS[decode(kc, len(KID_SEQS))]
	g0 = GRAND0_SEQS[decode(g0c, len(GRAND0_SEQS))]
	g1 = GRAND1_SEQS[decode(g1c, len(GRAND1_SEQS))]
	d = True if deep else False
	# grandchildren only exist under tree children
	if (len(g0) and (len(kids) < 1 or kids[0] is None)) or (len(g1) and (len(kids) < 2 or kids[1] is None)) or (d and (len(g0) == 0 or g0[0] is None)):
		return ok(True)
	return ok(natively(check_tree, kids, g0, g1, d))


def explain_tree(kc: int, g0c: int, g1c: int, deep: bool) -> str:
	shape = Shape(KID_SEQS[kc], GRAND0_SEQS[g0c], GRAND1_SEQS[g1c], bool(deep))
	finder = ASTFinder()
	return f'tree {shape.root!r}: full_pathfy keys {list(finder.full_pathfy(EntryOfLark(shape.to_lark())).keys())!r}; reference paths {[p for p, _, _ in shape.reference_paths()]!r} (or a structural query disagrees with the shape)'


# ---------------------------------------------------------------- O4 node class is a function of the tree alone
_MAPPING = symbol_mapping()  # data, evaluated once outside tracing


def tok(kind: str, v: str) -> lark.Token:
	return lark.Token(kind, v)


def name(v: str) -> lark.Tree:
	return lark.Tree('name', [tok('NAME', v)])


def funcdef(fname: str, first_param: str | None, decorator: str | None, body_inner: lark.Tree | None = None) -> lark.Tree:
	params = lark.Tree('parameters', [lark.Tree('paramvalue', [lark.Tree('typedparam', [name(first_param), None]), None])]) if first_param else None
	stmts = [body_inner] if body_inner is not None else [lark.Tree('pass_stmt', [])]
	raw = lark.Tree('function_def_raw', [name(fname), params, None, lark.Tree('block', stmts)])
	decs = lark.Tree('decorators', [lark.Tree('decorator', [lark.Tree('dotted_name', [name(decorator)]), None])]) if decorator else None
	return lark.Tree('function_def', [decs, raw])


def class_with(methods: list) -> lark.Tree:
	return lark.Tree('class_def', [None, lark.Tree('class_def_raw', [name('C'), None, lark.Tree('block', methods)])])


def o4_tree(variant: int) -> lark.Tree:
	"""synthetic trees over real tags in which function_def resolves to Function / Method / ClassMethod / Constructor / Closure
	depending on its surroundings (parent class, first parameter, decorator, enclosing function)"""
	inner = funcdef('g', None, None)
	stmts = [
		funcdef('f', None, None, inner if variant % 2 == 0 else None),
		class_with([
			funcdef('__init__', 'self', None),
			funcdef('m', 'self', None, funcdef('h', None, None) if variant % 3 == 0 else None),
			funcdef('c', 'cls', 'classmethod'),
		]),
	]
	if variant >= 3:
		stmts.reverse()
	return lark.Tree('file_input', stmts)


PERMS = list(itertools.permutations(range(4)))


def check_order(variant: int, perm_a: int, perm_b: int) -> bool:
	tree = o4_tree(variant)
	finder = ASTFinder()
	paths = [p for p, e in finder.full_pathfy(EntryOfLark(tree)).items() if EntryPath(p).last_tag in ('function_def', 'class_def', 'file_input', 'block')]
	fresh = {}
	for p in paths:
		fresh[p] = type(make_nodes(tree, _MAPPING).by(p))  # a new resolver per query: the class the tree alone dictates
	funcs = [p for p in paths if EntryPath(p).last_tag == 'function_def']
	if len({fresh[p].__name__ for p in funcs}) >= 4:
		cover('competing_classes')

	def run(perm: tuple) -> dict:
		nodes = make_nodes(tree, _MAPPING)
		order = list(paths)
		# permute the first four queries, then interleave structural queries that instantiate other nodes first
		head = [order[i] for i in perm if i < len(order)]
		order = head + [p for p in order if p not in head]
		out = {}
		for i, p in enumerate(order):
			if i % 2 == 0:
				nodes.children(p)
			else:
				try:
					nodes.parent(p)
				except Errors.NodeNotFound:
					pass
			out[p] = type(nodes.by(p))
		return out

	a = run(PERMS[perm_a])
	b = run(PERMS[perm_b])
	return a == fresh and b == fresh


def order_law(variant: int, pa: int, pb: int) -> bool:
	"""
	pre: 0 <= variant < 6 and 0 <= pa < len(PERMS) and 0 <= pb < len(PERMS)
	pre: pa < pb
	pre: KIDS_CODE is None or variant == KIDS_CODE
	post: _
	"""
	return ok(natively(check_order, decode(variant, 6), decode(pa, len(PERMS)), decode(pb, len(PERMS))))


def explain_order(variant: int, pa: int, pb: int) -> str:
	return f'variant {variant}: resolved classes differ between query orders {PERMS[pa]} / {PERMS[pb]} or from a fresh resolver'


CLASSIFIERS: dict = {}
EXPLAIN = {'tree_laws': explain_tree, 'order_law': explain_order}
