"""C17 — folding constant expressions gives the value Python gives.

Real code: LiteralEvaluator._op_bin_each/_calc/_bitwise/_allow_string/_cat, on_integer/on_float/on_string/on_factor/on_func_call
(rogw/tranp/implements/transpiler/evaluator.py). The evaluator is built with __new__ (no Reflections needed for these kernels);
nodes are stubs exposing `.tokens` only. Everything the handlers raise is a refusal: Procedure wraps any handler exception into an
Errors.Error (that wrapping is C07/C09's subject) - only a *different value* violates the property.
Symbolic (S): operands (unbounded ints unless stated), literal texts. Case split (F): operator(s), cast name.
"""
from vlib.prelude import ALPHA, CASE, cover, decode, in_alpha, natively, ok

from rogw.tranp.implements.transpiler.evaluator import LiteralEvaluator

_EV = LiteralEvaluator.__new__(LiteralEvaluator)

OP: str = CASE.get('op', '+')
OP2: str = CASE.get('op2', '+')
BOUND: int = int(CASE.get('bound', 0))  # 0 = unbounded
SHIFT_MAX: int = int(CASE.get('shift_max', 64))


class _StubLabel:
	def is_a(self, *classes) -> bool:
		return any(c.__name__ == 'Empty' for c in classes)  # a positional argument has no label


class _StubArgument:
	label = _StubLabel()
	unpacking = ''


class StubNode:
	"""a FuncCall / literal node as far as the evaluator reads it: tokens, calls and (for a cast) one positional argument"""

	def __init__(self, tokens: str, calls: 'StubNode | None' = None) -> None:
		self.tokens = tokens
		self.calls = calls
		self.arguments = [_StubArgument()]


def py_bin(a, op: str, b):
	if op == '+':
		return a + b
	if op == '-':
		return a - b
	if op == '*':
		return a * b
	if op == '/':
		return a / b
	if op == '%':
		return a % b
	if op == '|':
		return a | b
	if op == '^':
		return a ^ b
	if op == '&':
		return a & b
	if op == '<<':
		return a << b
	if op == '>>':
		return a >> b
	raise AssertionError(op)


def is_int(v) -> bool:
	return isinstance(v, int) and not isinstance(v, bool)


def in_bound(v: int) -> bool:
	return BOUND == 0 or -BOUND <= v < BOUND


def shift_ok(op: str, b: int) -> bool:
	return op not in ('<<', '>>') or 0 <= b <= SHIFT_MAX


# ---------------------------------------------------------------- K1 int o int
def int_binop(a: int, b: int) -> bool:
	"""
	pre: in_bound(a) and in_bound(b)
	pre: shift_ok(OP, b)
	post: _
	"""
	try:
		want = py_bin(a, OP, b)
	except Exception:  # noqa: BLE001  CPython itself has no value (division by zero ...): nothing to agree with
		cover('python_raises')
		return ok(True)
	try:
		got = _EV._op_bin_each(None, [a, OP, b])  # type: ignore
	except Exception:  # noqa: BLE001
		cover('refused')
		return ok(True)
	cover('value')
	return ok(is_int(got) == is_int(want) and isinstance(got, float) == isinstance(want, float) and got == want)


def explain_int_binop(a: int, b: int) -> str:
	return f'{a} {OP} {b}: evaluator {_EV._op_bin_each(None, [a, OP, b])!r}, CPython {py_bin(a, OP, b)!r}'  # type: ignore


def int_chain(a: int, b: int, c: int) -> bool:
	"""
	pre: in_bound(a) and in_bound(b) and in_bound(c)
	pre: shift_ok(OP, b) and shift_ok(OP2, c)
	post: _
	"""
	try:
		want = py_bin(py_bin(a, OP, b), OP2, c)
	except Exception:  # noqa: BLE001
		cover('python_raises')
		return ok(True)
	try:
		got = _EV._op_bin_each(None, [a, OP, b, OP2, c])  # type: ignore
	except Exception:  # noqa: BLE001
		cover('refused')
		return ok(True)
	cover('value')
	return ok(is_int(got) == is_int(want) and got == want)


def explain_int_chain(a: int, b: int, c: int) -> str:
	return f'{a} {OP} {b} {OP2} {c}: evaluator {_EV._op_bin_each(None, [a, OP, b, OP2, c])!r}, CPython {py_bin(py_bin(a, OP, b), OP2, c)!r}'  # type: ignore


def unary_sign(v: int, minus: bool) -> bool:
	"""
	post: _
	"""
	got = _EV.on_factor(None, '-' if minus else '+', v)  # type: ignore
	return ok(is_int(got) and got == (-v if minus else +v))


# ---------------------------------------------------------------- K3 literal decoding
def dec_shape(t: str) -> bool:
	"""DEC_NUMBER of lark's python grammar: [1-9](_?[0-9])* | 0(_?0)*"""
	if len(t) == 0 or t[0] not in '0123456789':
		return False
	prev_us = False
	for i, c in enumerate(t):
		if c == '_':
			if prev_us or i == 0:
				return False
			prev_us = True
		elif c in '0123456789':
			if t[0] == '0' and c != '0':
				return False
			prev_us = False
		else:
			return False
	return not prev_us


def hex_shape(t: str) -> bool:
	"""HEX_NUMBER: 0[xX](_?[0-9a-fA-F])+"""
	if len(t) < 3 or t[0] != '0' or t[1] not in 'xX':
		return False
	prev_us = False
	for c in t[2:]:
		if c == '_':
			if prev_us:
				return False
			prev_us = True
		elif c in '0123456789abcdefABCDEF':
			prev_us = False
		else:
			return False
	return not prev_us


def ref_int_literal(t: str) -> int:
	"""value of a DEC/HEX literal, computed digit by digit (independent of int())"""
	base = 10
	digits = t
	if len(t) > 1 and t[1] in 'xX':
		base = 16
		digits = t[2:]
	v = 0
	for c in digits:
		if c == '_':
			continue
		v = v * base + '0123456789abcdef'.index(c.lower())
	return v


MAXLEN: int = int(CASE.get('n', 4))


def integer_literal(tokens: str) -> bool:
	"""
	pre: len(tokens) <= MAXLEN
	pre: in_alpha(tokens)
	pre: dec_shape(tokens) or hex_shape(tokens)
	post: _
	"""
	want = ref_int_literal(tokens)
	if hex_shape(tokens):
		cover('hex')
	if '_' in tokens:
		cover('underscore')
	try:
		got = _EV.on_integer(StubNode(tokens))  # type: ignore
	except Exception:  # noqa: BLE001
		cover('refused')
		return ok(True)
	cover('value')
	return ok(is_int(got) and got == want)


def explain_integer_literal(tokens: str) -> str:
	return f'literal {tokens!r}: evaluator {_EV.on_integer(StubNode(tokens))!r}, CPython {ref_int_literal(tokens)!r}'  # type: ignore


# ---------------------------------------------------------------- K4 string concatenation
def plain_literal(s: str) -> bool:
	"""a quoted literal without prefix / escapes / line breaks whose content does not contain its own quote"""
	if len(s) < 2 or s[0] not in '"\'' or s[-1] != s[0]:
		return False
	body = s[1:-1]
	return s[0] not in body and chr(92) not in body and chr(10) not in body


def string_literal(s: str) -> bool:
	"""plain literal, or a triple-double-quoted one"""
	if len(s) >= 6 and s.startswith('"""') and s.endswith('"""'):
		body = s[3:-3]
		return '"' not in body and chr(92) not in body
	return plain_literal(s)


def literal_value(s: str) -> str:
	if len(s) >= 6 and s.startswith('"""'):
		return s[3:-3]
	return s[1:-1]


QUOTES = ['"', "'", '"""']
LQ: int = int(CASE.get('lq', 0))
RQ: int = int(CASE.get('rq', 0))


def string_concat(lbody: str, rbody: str) -> bool:
	"""
	pre: len(lbody) <= MAXLEN and len(rbody) <= MAXLEN
	pre: in_alpha(lbody) and in_alpha(rbody)
	pre: string_literal(QUOTES[LQ] + lbody + QUOTES[LQ]) and string_literal(QUOTES[RQ] + rbody + QUOTES[RQ])
	post: _
	"""
	left = QUOTES[LQ] + lbody + QUOTES[LQ]
	right = QUOTES[RQ] + rbody + QUOTES[RQ]
	want = lbody + rbody
	if '"' in want or "'" in want:
		cover('quote_in_content')
	try:
		got = _EV._op_bin_each(None, [left, '+', right])  # type: ignore
	except Exception:  # noqa: BLE001
		cover('refused')
		return ok(True)
	cover('value')
	# the result is literal text: it must itself be a literal of the domain and denote the concatenation
	return ok(isinstance(got, str) and string_literal(got) and literal_value(got) == want)


def explain_string_concat(lbody: str, rbody: str) -> str:
	left = QUOTES[LQ] + lbody + QUOTES[LQ]
	right = QUOTES[RQ] + rbody + QUOTES[RQ]
	return f'{left} + {right}: evaluator gives the literal text {_EV._op_bin_each(None, [left, "+", right])!r}, CPython value {lbody + rbody!r}'  # type: ignore


ESCAPED = ['"a"', '"a\\""', '"\\"a"', '"say \\"hi\\""', '"a\\\\"', '"\\\\\\""', "'it\\'s'", "'a\\''", "'\\''", '"it\'s"', "'say \"hi\"'", '"x\\n"', '"tab\\t."', '""', "''", '"!"', '"""a"b"""']


def check_escaped_concat(i: int, j: int) -> bool:
	left, right = ESCAPED[i], ESCAPED[j]
	want = eval(left) + eval(right)  # noqa: S307  (literals of the fixed pool above)
	try:
		got = _EV._op_bin_each(None, [left, '+', right])  # type: ignore
	except Exception:  # noqa: BLE001
		cover('refused')
		return True
	cover('value')
	if not isinstance(got, str):
		return False
	try:
		back = eval(got)  # noqa: S307  the result is literal text: it must be a Python literal denoting the concatenation
	except Exception:  # noqa: BLE001
		return False
	return isinstance(back, str) and back == want


def escaped_concat(i: int, j: int) -> bool:
	"""
	pre: 0 <= i < len(ESCAPED) and 0 <= j < len(ESCAPED)
	post: _
	"""
	return ok(natively(check_escaped_concat, decode(i, len(ESCAPED)), decode(j, len(ESCAPED))))


def explain_escaped_concat(i: int, j: int) -> str:
	left, right = ESCAPED[i], ESCAPED[j]
	return f'{left} + {right}: evaluator gives the literal text {_EV._op_bin_each(None, [left, "+", right])!r}, CPython value {eval(left) + eval(right)!r}'  # type: ignore  # noqa: S307


# ---------------------------------------------------------------- K5 casts
CAST: str = CASE.get('cast', 'int')


def cast_of_int(v: int) -> bool:
	"""
	pre: in_bound(v)
	post: _
	"""
	node = StubNode('', StubNode(CAST))
	try:
		got = _EV.on_func_call(node, CAST, [v])  # type: ignore
	except Exception:  # noqa: BLE001
		cover('refused')
		return ok(True)
	cover('value')
	if CAST == 'int':
		return ok(is_int(got) and got == v)
	if CAST == 'float':
		return ok(isinstance(got, float) and got == float(v))
	# str(v): literal text denoting the decimal rendering
	return ok(isinstance(got, str) and plain_literal(got) and literal_value(got) == str(v))


def cast_of_string(lit: str) -> bool:
	"""
	pre: len(lit) <= MAXLEN
	pre: in_alpha(lit)
	pre: plain_literal(lit)
	post: _
	"""
	node = StubNode('', StubNode(CAST))
	value = literal_value(lit)
	try:
		if CAST == 'int':
			want = int(value)
		elif CAST == 'float':
			want = float(value)
		else:
			want = value
	except Exception:  # noqa: BLE001
		cover('python_raises')
		return ok(True)
	try:
		got = _EV.on_func_call(node, CAST, [lit])  # type: ignore
	except Exception:  # noqa: BLE001
		cover('refused')
		return ok(True)
	cover('value')
	if CAST == 'str':
		return ok(isinstance(got, str) and plain_literal(got) and literal_value(got) == want)
	return ok(type(got) is type(want) and got == want)


def explain_cast_of_string(lit: str) -> str:
	node = StubNode('', StubNode(CAST))
	return f'{CAST}({lit}): evaluator {_EV.on_func_call(node, CAST, [lit])!r}'  # type: ignore


CLASSIFIERS: dict = {}
EXPLAIN = {
	'int_binop': explain_int_binop,
	'int_chain': explain_int_chain,
	'integer_literal': explain_integer_literal,
	'string_concat': explain_string_concat, 'escaped_concat': explain_escaped_concat,
	'cast_of_string': explain_cast_of_string,
}
