"""Canonical forms for C11: the self-hosted parser's simplified tree and CPython's ast are both mapped onto one small
S-expression vocabulary, for the constructs py_gram.lark covers. Anything either side cannot express -> Unsupported
(the sentence is then outside the comparison, never a finding)."""
import ast


class Unsupported(Exception):
	pass


# ---------------------------------------------------------------- tranp side: ASTTree.simplify() = (name, [children]) | (name, 'token text')
def is_tok(e) -> bool:
	return isinstance(e[1], str)


def t_expr(e):
	name, body = e
	if name == 'var':
		return ('name', body[0][1])
	if name == 'name':
		return ('name', body)
	if name == 'digit':
		return ('num', int(body))
	if name == 'decimal':
		return ('num', float(body))
	if name == 'string':
		return ('str', ast.literal_eval(body))
	if name == 'boolean':
		return ('const', body)
	if name == 'none':
		return ('const', 'None')
	if name in ('calc_sum', 'calc_mul'):
		acc = t_expr(body[0])
		i = 1
		while i < len(body):
			acc = ('bin', body[i][1], acc, t_expr(body[i + 1]))
			i += 2
		return acc
	if name == 'unary':
		if body[0][0] != 'op_unary':
			raise Unsupported('unary')
		return ('neg', t_expr(body[1]))
	if name == 'comp_not':
		return ('not', t_expr(body[1]))
	if name in ('comp_or', 'comp_and'):
		return ('or' if name == 'comp_or' else 'and', [t_expr(body[i]) for i in range(0, len(body), 2)])
	if name == 'comp':
		left = t_expr(body[0])
		rest = []
		i = 1
		while i < len(body):
			rest.append((t_cmp(body[i]), t_expr(body[i + 1])))
			i += 2
		return ('cmp', left, rest)
	if name == 'ternary':
		return ('ifexp', t_expr(body[1]), t_expr(body[0]), t_expr(body[2]))
	if name == 'expr_move':
		return ('walrus', t_expr(body[0]), t_expr(body[1]))
	if name == 'lambda':
		params = [c[1] for c in body[:-1] if c[0] == 'name']
		return ('lambda', params, t_expr(body[-1]))
	if name == 'relay':
		return ('attr', t_expr(body[0]), body[1][1])
	if name == 'indexer':
		return ('index', t_expr(body[0]), [t_expr(c) for c in body[1:]])
	if name == 'invoke':
		args = []
		rest = body[1:]
		i = 0
		while i < len(rest):
			c = rest[i]
			if c[0] == '__empty__':
				i += 1
			elif c[0] == 'name':
				args.append(('kw', c[1], t_expr(rest[i + 1])))
				i += 2
			elif c[0] == 'packing':
				args.append(('star' if c[1] == '*' else 'dstar', t_expr(rest[i + 1])))
				i += 2
			else:
				args.append(('pos', t_expr(c)))
				i += 1
		# CPython's ast keeps positional/starred arguments and keyword/double-starred ones in two lists: same normal form here
		args = [a for a in args if a[0] in ('pos', 'star')] + [a for a in args if a[0] in ('kw', 'dstar')]
		return ('call', t_expr(body[0]), args)
	if name == 'list':
		return ('list', [t_expr(c) for c in body if c[0] != '__empty__'])
	if name == 'tuple':
		return ('tuple', [t_expr(c) for c in body])
	if name == 'dict':
		return ('dict', [(t_expr(kv[1][0]), t_expr(kv[1][1])) for kv in body if kv[0] != '__empty__'])
	raise Unsupported(f'tranp expression {name}')


def t_cmp(e) -> str:
	name, body = e
	if name != 'op_comp':
		raise Unsupported('comparison operator')
	return ' '.join(c[1] for c in body)


def t_block(e) -> list:
	if e[0] != 'block':
		raise Unsupported('block')
	return [t_stmt(c) for c in e[1]]


def t_stmt(e):
	name, body = e
	if name == 'move':
		value = t_expr(body[-1])
		head = body[:-1]
		if len(head) == 1 and head[0][0] == 'name':
			return ('assign', ('name', head[0][1]), value)
		if len(head) == 2 and head[1][0] == 'name':
			return ('assign', ('attr', t_expr(head[0]), head[1][1]), value)
		return ('assign', ('index', t_expr(head[0]), [t_expr(c) for c in head[1:]]), value)
	if name == 'break':
		return ('break',)
	if name == 'continue':
		return ('continue',)
	if name == 'pass':
		return ('pass',)
	if name == 'return':
		return ('return', None if body[0][0] == '__empty__' else t_expr(body[0]))
	if name == 'raise':
		return ('raise', t_expr(body[0]))
	if name == 'if':
		branches = []
		orelse = None
		for c in body:
			if c[0] in ('then', 'elif'):
				branches.append((t_expr(c[1][0]), t_block(c[1][1])))
			elif c[0] == 'else':
				orelse = t_block(c[1][0])
		return ('if', branches, orelse)
	if name == 'while':
		return ('while', t_expr(body[0]), t_block(body[1]))
	if name == 'for':
		names = [c[1] for c in body[:-2]]
		return ('for', names, t_expr(body[-2]), t_block(body[-1]))
	if name == 'function':
		params = []
		if body[1][0] == 'params':
			for p in body[1][1]:
				pname, ptype, pdef = p[1]
				params.append((pname[1], t_type(ptype), None if pdef[0] == '__empty__' else t_expr(pdef)))
		return ('def', body[0][1], params, None if body[2][0] == '__empty__' else t_type(body[2]), t_block(body[3]))
	return ('expr', t_expr(e))


def t_type(e):
	if e[0] == 'type_none':
		return ('const', 'None')
	if e[0] == 'type_var':
		return ('name', e[1][0][1])
	raise Unsupported('type')


def canon_tranp(simplified) -> list:
	if simplified[0] != 'entry':
		raise Unsupported('entry')
	return [t_stmt(c) for c in simplified[1]]


# ---------------------------------------------------------------- CPython side
BIN = {ast.Add: '+', ast.Sub: '-', ast.Mult: '*', ast.Div: '/', ast.Mod: '%'}
CMP = {ast.Lt: '<', ast.Gt: '>', ast.Eq: '==', ast.LtE: '<=', ast.GtE: '>=', ast.NotEq: '!=', ast.In: 'in', ast.NotIn: 'not in', ast.Is: 'is', ast.IsNot: 'is not'}


def p_expr(n):
	if isinstance(n, ast.Name):
		return ('name', n.id)
	if isinstance(n, ast.Constant):
		if n.value is True or n.value is False or n.value is None:
			return ('const', repr(n.value))
		if isinstance(n.value, (int, float)):
			return ('num', n.value)
		if isinstance(n.value, str):
			return ('str', n.value)
		raise Unsupported('constant')
	if isinstance(n, ast.BinOp) and type(n.op) in BIN:
		return ('bin', BIN[type(n.op)], p_expr(n.left), p_expr(n.right))
	if isinstance(n, ast.UnaryOp) and isinstance(n.op, ast.USub):
		return ('neg', p_expr(n.operand))
	if isinstance(n, ast.UnaryOp) and isinstance(n.op, ast.Not):
		return ('not', p_expr(n.operand))
	if isinstance(n, ast.BoolOp):
		return ('or' if isinstance(n.op, ast.Or) else 'and', [p_expr(v) for v in n.values])
	if isinstance(n, ast.Compare):
		return ('cmp', p_expr(n.left), [(CMP[type(o)], p_expr(c)) for o, c in zip(n.ops, n.comparators)])
	if isinstance(n, ast.IfExp):
		return ('ifexp', p_expr(n.test), p_expr(n.body), p_expr(n.orelse))
	if isinstance(n, ast.NamedExpr):
		return ('walrus', p_expr(n.target), p_expr(n.value))
	if isinstance(n, ast.Lambda):
		a = n.args
		if a.vararg or a.kwarg or a.kwonlyargs or a.defaults or a.posonlyargs:
			raise Unsupported('lambda parameters')
		return ('lambda', [x.arg for x in a.args], p_expr(n.body))
	if isinstance(n, ast.Attribute):
		return ('attr', p_expr(n.value), n.attr)
	if isinstance(n, ast.Subscript):
		s = n.slice
		if isinstance(s, ast.Slice):
			parts = [s.lower, s.upper] + ([s.step] if s.step is not None else [])
			if any(p is None for p in parts):
				raise Unsupported('open slice')
			return ('index', p_expr(n.value), [p_expr(p) for p in parts])
		if isinstance(s, ast.Tuple):
			raise Unsupported('tuple index')
		return ('index', p_expr(n.value), [p_expr(s)])
	if isinstance(n, ast.Call):
		args = []
		for a in n.args:
			if isinstance(a, ast.Starred):
				args.append(('star', p_expr(a.value)))
			else:
				args.append(('pos', p_expr(a)))
		for k in n.keywords:
			if k.arg is None:
				args.append(('dstar', p_expr(k.value)))
			else:
				args.append(('kw', k.arg, p_expr(k.value)))
		return ('call', p_expr(n.func), args)
	if isinstance(n, ast.List):
		return ('list', [p_expr(e) for e in n.elts])
	if isinstance(n, ast.Tuple):
		return ('tuple', [p_expr(e) for e in n.elts])
	if isinstance(n, ast.Dict):
		return ('dict', [(p_expr(k), p_expr(v)) for k, v in zip(n.keys, n.values)])
	raise Unsupported(f'python expression {type(n).__name__}')


def p_body(stmts) -> list:
	return [p_stmt(s) for s in stmts]


def p_stmt(n):
	if isinstance(n, ast.Assign):
		if len(n.targets) != 1:
			raise Unsupported('chained assignment')
		return ('assign', p_expr(n.targets[0]), p_expr(n.value))
	if isinstance(n, ast.Expr):
		if isinstance(n.value, ast.Constant) and n.value.value is Ellipsis:
			return ('pass',)
		return ('expr', p_expr(n.value))
	if isinstance(n, ast.Break):
		return ('break',)
	if isinstance(n, ast.Continue):
		return ('continue',)
	if isinstance(n, ast.Return):
		return ('return', None if n.value is None else p_expr(n.value))
	if isinstance(n, ast.Raise):
		if n.exc is None or n.cause is not None:
			raise Unsupported('raise form')
		return ('raise', p_expr(n.exc))
	if isinstance(n, ast.If):
		branches = [(p_expr(n.test), p_body(n.body))]
		orelse = n.orelse
		while len(orelse) == 1 and isinstance(orelse[0], ast.If):
			branches.append((p_expr(orelse[0].test), p_body(orelse[0].body)))
			orelse = orelse[0].orelse
		return ('if', branches, p_body(orelse) if orelse else None)
	if isinstance(n, ast.While):
		if n.orelse:
			raise Unsupported('while else')
		return ('while', p_expr(n.test), p_body(n.body))
	if isinstance(n, ast.For):
		if n.orelse:
			raise Unsupported('for else')
		t = n.target
		if isinstance(t, ast.Name):
			names = [t.id]
		elif isinstance(t, ast.Tuple) and all(isinstance(e, ast.Name) for e in t.elts):
			names = [e.id for e in t.elts]
		else:
			raise Unsupported('for target')
		return ('for', names, p_expr(n.iter), p_body(n.body))
	if isinstance(n, ast.FunctionDef):
		a = n.args
		if a.vararg or a.kwarg or a.kwonlyargs or a.posonlyargs or n.decorator_list:
			raise Unsupported('function signature')
		defaults = [None] * (len(a.args) - len(a.defaults)) + list(a.defaults)
		params = []
		for arg, d in zip(a.args, defaults):
			if arg.annotation is None:
				raise Unsupported('untyped parameter')
			params.append((arg.arg, p_expr(arg.annotation), None if d is None else p_expr(d)))
		return ('def', n.name, params, None if n.returns is None else p_expr(n.returns), p_body(n.body))
	raise Unsupported(f'python statement {type(n).__name__}')


def canon_python(source: str) -> list:
	return p_body(ast.parse(source).body)
