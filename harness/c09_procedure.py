"""C09 — every handler receives exactly the results of its own children.

Real code: Procedure (semantics/procedure.py), Node.procedural / prop_keys / __prop_expand / _under_expand, Nodes.expand,
the real definition/*.py node classes with the real symbol_mapping(), NodeResolver.
Trees: source templates with slots (F) are parsed *concretely* by the shipped Lark grammar (Lark is only the tree builder here;
nothing symbolic flows through it) and wrapped by the real Nodes; the Procedure then runs with recording handlers.
Symbolic (F): template index, slot fillings, which node kind returns None, where a nested exec is started. Each path is one
concrete program; the solver exhausts the product.
"""
import lark
from lark.indenter import PythonIndenter

from vlib.prelude import CASE, REPO, cover, decode, natively, ok

from rogw.tranp.errors import Errors
from rogw.tranp.semantics.procedure import Procedure
from rogw.tranp.syntax.node.node import Node

from harness.c10_tree import _MAPPING, make_nodes

with open(f'{REPO}/data/grammar.lark', encoding='utf-8') as _f:
	_LARK = lark.Lark(_f.read(), start='file_input', parser='lalr', postlex=PythonIndenter(), propagate_positions=True)

EXPRS = ['a', '1', 'a + 1', 'a + b - c', 'a * b + c * d', '-a', 'not a', 'a < b', 'a < b < c', 'a in b', 'a not in b', 'a is not b', 'a and b or c',
	'a if b else c', 'f()', 'f(a)', 'f(a, k=b)', 'f(*a, **b)', 'a.b.c', 'a[0]', 'a[1:2]', 'a[b][c]', '[a, b]', '[]', '{"k": a}', '(a, b)', 'f(a)[0].b(c)',
	'lambda: a', 'lambda x: x + a', '[x for x in a]', '{k: v for k, v in a.items()}', '"s" + "t"', 'a | b & c ^ d', 'a << 1 >> b']
TEMPLATES = [
	'x = {0}\n',
	'x: int = {0}\ny += {1}\n',
	'if {0}:\n\tx = {1}\nelif a:\n\tpass\nelse:\n\ty = {0}\n',
	'while {0}:\n\tx = {1}\n\tbreak\n',
	'for i in {0}:\n\tx = {1}\n\tcontinue\n',
	'def f(p: int, q: str = {0}) -> int:\n\tx = {1}\n\treturn x\n',
	'class A:\n\tv: int = {0}\n\tdef m(self, p: int) -> None:\n\t\tself.w: int = {1}\n\t@classmethod\n\tdef c(cls) -> "A":\n\t\treturn cls()\n',
	'class B(A[T]):\n\tdef __init__(self) -> None:\n\t\tsuper().__init__()\n\t\tself.x: int = {0}\nclass C(B[int], D):\n\tn: int = {1}\n',
	'try:\n\tx = {0}\nexcept E as e:\n\traise X({1}) from e\n',
	'with open({0}) as f:\n\tx = {1}\n',
	'from a.b import c\nimport d\nx = {0}\nassert {1}, "m"\ndel x\n',
	'class E(Enum):\n\tA = {0}\n\tB = {1}\nprint(E.A.value)\n',
	'def g() -> None:\n\tdef h(n: int) -> int:\n\t\treturn n + {0}\n\tyield {1}\n',
	'x, y = {0}, {1}\nz: dict[str, list[int]] = {{}}\n',
]
TEMPLATE = CASE.get('template')
FULL: bool = bool(CASE.get('full', False))
NONE_KINDS = ['', 'empty', 'var', 'integer', 'argument', 'block', 'move_assign', 'function', 'comparison']


def build(template: int, e0: int, e1: int):
	source = TEMPLATES[template].format(EXPRS[e0], EXPRS[e1])
	tree = _LARK.parse(source)
	return source, make_nodes(tree, _MAPPING)


class Recorder:
	"""handlers return a token per node (or None for one designated node kind) and check what they are handed"""

	def __init__(self, none_kind: str, nested_at: int) -> None:
		self.none_kind = none_kind
		self.nested_at = nested_at
		self.calls = 0
		self.errors: list = []
		self.results: dict = {}
		self.procedure = Procedure[object]()
		self.procedure.on('on_fallback', self.on_fallback)
		self.in_nested = False

	def token(self, node: Node):
		return None if node.classification == self.none_kind else ('R', node.full_path)

	def on_fallback(self, node: Node, **event):
		self.calls += 1
		keys = node.prop_keys()
		if list(event.keys()) != list(reversed(keys)) and set(event.keys()) != set(keys):
			self.errors.append((node.full_path, 'keys', sorted(event.keys()), keys))
		for k in keys:
			want_nodes = getattr(node, k)
			got = event.get(k, '<missing>')
			if isinstance(want_nodes, list):
				want = [self.token(n) for n in want_nodes]
				if not isinstance(got, list) or got != want:
					self.errors.append((node.full_path, k, got, want))
			else:
				want = self.token(want_nodes)
				if isinstance(got, list) or got != want:
					self.errors.append((node.full_path, k, got, want))
		# nested processing started from inside a handler: must not disturb the outer run, also when it fails and is caught
		if not self.in_nested and self.calls == self.nested_at:
			self.in_nested = True
			cover('nested_exec')
			inner = self.procedure.exec(node)
			if inner != self.token(node):
				self.errors.append((node.full_path, 'nested result', inner))
			try:
				self.failing = True
				self.procedure.exec(node)
			except Errors.Error:
				cover('nested_failure_caught')
			finally:
				self.failing = False
			self.in_nested = False
		elif self.in_nested and getattr(self, 'failing', False):
			raise Errors.OperationNotAllowed(node, 'nested run fails on purpose')
		return self.token(node)


def check_program(template: int, e0: int, e1: int, none_kind: int, nested_at: int) -> bool:
	try:
		source, nodes = build(template, e0, e1)
	except lark.exceptions.LarkError:
		return True  # the filled template is not in the shipped grammar: nothing to process
	root = nodes.by('file_input')
	rec = Recorder(NONE_KINDS[none_kind], nested_at)
	result = rec.procedure.exec(root)  # an Errors.Error here (stack empty / invalid number of stacks) is a counterexample
	if NONE_KINDS[none_kind]:
		cover('none_result')
	if rec.errors:
		return False
	# exactly one result: the root's; every node of the flattened order was handled once (plus the nested reruns)
	if result != rec.token(root):
		return False
	# a second run on the same procedure object starts from a clean stack
	rec2 = Recorder(NONE_KINDS[none_kind], 0)
	rec2.procedure = rec.procedure
	rec.procedure.clear_handler()
	rec.procedure.on('on_fallback', rec2.on_fallback)
	again = rec.procedure.exec(root)
	return again == rec2.token(root) and not rec2.errors


def program_law(template: int, e0: int, e1: int, none_kind: int, nested_at: int) -> bool:
	"""
	pre: 0 <= template < len(TEMPLATES) and 0 <= e0 < len(EXPRS) and 0 <= e1 < len(EXPRS)
	pre: TEMPLATE is None or template == TEMPLATE
	pre: FULL or e1 == (e0 * 7 + 3) % len(EXPRS)
	pre: 0 <= none_kind < len(NONE_KINDS) and 0 <= nested_at < 4
	pre: not FULL or nested_at == 0 or nested_at == 2
	post: _
	"""
	return ok(natively(check_program, decode(template, len(TEMPLATES)), decode(e0, len(EXPRS)), decode(e1, len(EXPRS)), decode(none_kind, len(NONE_KINDS)), [0, 1, 3, 7][decode(nested_at, 4)]))


def explain_program(template: int, e0: int, e1: int, none_kind: int, nested_at: int) -> str:
	source = TEMPLATES[template].format(EXPRS[e0], EXPRS[e1])
	try:
		_, nodes = build(template, e0, e1)
		rec = Recorder(NONE_KINDS[none_kind], [0, 1, 3, 7][nested_at])
		res = rec.procedure.exec(nodes.by('file_input'))
		return f'program {source!r}: result {res!r}; first mismatches {rec.errors[:2]!r}'
	except Exception as e:  # noqa: BLE001
		return f'program {source!r} (none result for {NONE_KINDS[none_kind]!r}, nested exec at call {[0, 1, 3, 7][nested_at]}): {type(e).__name__}: {str(e)[:300]}'


# ---------------------------------------------------------------- O4 prop_keys: MRO-ordered, definition-ordered, independent of query order
def expandable_by_source(cls) -> list:
	"""independent walk of the class bodies' AST: methods decorated with @Meta.embed(Node, expandable), base classes first"""
	import ast
	import inspect
	import textwrap
	out: list = []
	for klass in reversed(cls.__mro__):
		if not (isinstance(klass, type) and issubclass(klass, Node)):
			continue
		try:
			tree = ast.parse(textwrap.dedent(inspect.getsource(klass)))
		except (OSError, TypeError):
			continue
		body = tree.body[0].body
		for st in body:
			if isinstance(st, ast.FunctionDef):
				for d in st.decorator_list:
					if 'expandable' in ast.unparse(d) and st.name not in out:
						out.append(st.name)
	return out


def all_node_classes() -> list:
	seen: list = []
	for ctor in _MAPPING.symbols.keys():
		for k in ctor.__mro__:
			if isinstance(k, type) and issubclass(k, Node) and k not in seen:
				seen.append(k)
	return seen


def prop_keys_closed() -> bool:
	classes = all_node_classes()
	for order in (classes, list(reversed(classes))):
		for k in order:
			key = f'__{k.__name__}_prop_keys__'
			if key in k.__dict__:
				delattr(k, key)  # forget the memo so that the asking order matters if it can
		for k in order:
			cover('class')
			if k.prop_keys() != expandable_by_source(k):
				return ok(False)
	return ok(True)


def explain_prop_keys() -> str:
	for k in all_node_classes():
		if k.prop_keys() != expandable_by_source(k):
			return f'{k.__name__}.prop_keys() = {k.prop_keys()!r}, class bodies say {expandable_by_source(k)!r}'
	return 'no difference in the default order'


CLASSIFIERS: dict = {}
EXPLAIN = {'program_law': explain_program, 'prop_keys_closed': explain_prop_keys}
