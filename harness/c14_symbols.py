"""C14 — exporting and re-importing the symbol table loses nothing (attribute-path and ordering kernels).

Real code: seqs.expand (lang/sequence.py), ReflectionSerializer._deserialize_attrs (serializer.py), SymbolDB.__setitem__/items/
_order_keys/_order_keys_recursive/to_json/import_json/completed (db.py).
Stub reflections implement the part of IReflection those functions touch (attrs with fallback to the origin's, types.fullyname /
module_path, stack(), extends() raising when already extended) - real Symbol/Reflection objects need parsed nodes (pipeline).
Symbolic (F): fan-outs of the attribute tree per level (up to 12 on one level: two-digit indices), type-key assignment,
reference structure and declaration order of a small module. Each path is one concrete table; the real code runs natively.
"""
import itertools

from vlib.prelude import CASE, cover, decode, natively, ok

import rogw.tranp.lang.sequence as seqs
from rogw.tranp.semantics.reflection.db import SymbolDB
from rogw.tranp.semantics.reflection.serializer import ReflectionSerializer


class StubTypes:
	def __init__(self, key: str) -> None:
		self.fullyname = key
		self.module_path = key.split('#')[0]


class StubRef:
	def __init__(self, key: str, origin: 'StubRef | None' = None) -> None:
		self.key = key
		self.types = StubTypes(key)
		self._origin = origin
		self._attrs: list = []

	@property
	def attrs(self) -> list:
		if self._attrs:
			return self._attrs
		return self._origin.attrs if self._origin else []

	def stack(self, node=None) -> 'StubRef':
		return StubRef(self.key, origin=self)

	def extends(self, *attrs) -> 'StubRef':
		if self._attrs:
			raise RuntimeError('Already set attributes')
		self._attrs = list(attrs)
		return self


KEYS = ['m#K0', 'm#K1', 'o#K2']
FANOUTS0 = [0, 1, 2, 3, 10, 11, 12]
_SER = ReflectionSerializer.__new__(ReflectionSerializer)


def build_tree(n0: int, n1a: int, n1b: int, n1last: int, n2: int, deep_under_last: bool):
	"""attribute tree as nested (key, [children]); level-0 fan-out n0, children of attr 0 / attr 1 / the last attr, grandchildren
	of (0,0), optionally a chain under the last attr's first child (path '11.0.0' when n0 == 12)"""
	def key(*idx: int) -> str:
		return KEYS[(sum(idx) + len(idx)) % len(KEYS)]
	tree = []
	for i in range(n0):
		kids = []
		n1 = n1a if i == 0 else n1b if i == 1 else n1last if i == n0 - 1 else 0
		for j in range(n1):
			grand = []
			if i == 0 and j == 0:
				grand = [(key(i, j, g), []) for g in range(n2)]
			if i == n0 - 1 and j == 0 and deep_under_last:
				grand = [(key(i, j, 0), [])]
			kids.append((key(i, j), grand))
		tree.append((key(i), kids))
	return tree


def to_refs(tree: list) -> list:
	out = []
	for k, kids in tree:
		r = StubRef(k)
		if kids:
			r.extends(*to_refs(kids))
		out.append(r)
	return out


def shape_of(refs: list) -> list:
	return [(r.types.fullyname, shape_of(r.attrs)) for r in refs]


def check_attrs(n0: int, n1a: int, n1b: int, n1last: int, n2: int, deep: bool) -> bool:
	tree = build_tree(n0, n1a, n1b, n1last, n2, deep)
	attrs = to_refs(tree)
	flat = seqs.expand(attrs, iter_key='attrs')
	data_attrs = {path: attr.types.fullyname for path, attr in flat.items()}  # what serialize() stores
	if any(len(p.split('.')[0]) > 1 for p in data_attrs):
		cover('two_digit_index')
	if any(p.count('.') >= 2 for p in data_attrs):
		cover('depth3')
	db = {k: StubRef(k) for k in KEYS}
	got = _SER._deserialize_attrs(db, data_attrs)  # every db[...] lookup must hit (KeyError = counterexample)
	if shape_of(got) != [(k, _plain(kids)) for k, kids in tree]:
		return False
	# importing the same data twice changes nothing: same tree again, the table's own symbols are not grown
	again = _SER._deserialize_attrs(db, data_attrs)
	if shape_of(again) != shape_of(got):
		return False
	return all(len(r._attrs) == 0 for r in db.values())


def _plain(tree: list) -> list:
	return [(k, _plain(kids)) for k, kids in tree]


def attrs_law(f0: int, n1a: int, n1b: int, n1last: int, n2: int, deep: bool) -> bool:
	"""
	pre: 0 <= f0 < len(FANOUTS0) and 0 <= n1a <= 3 and 0 <= n1b <= 2 and 0 <= n1last <= 2 and 0 <= n2 <= 2
	post: _
	"""
	n0 = FANOUTS0[decode(f0, len(FANOUTS0))]
	return ok(natively(check_attrs, n0, decode(n1a, 4), decode(n1b, 3), decode(n1last, 3), decode(n2, 3), True if deep else False))


def explain_attrs(f0: int, n1a: int, n1b: int, n1last: int, n2: int, deep: bool) -> str:
	tree = build_tree(FANOUTS0[f0], n1a, n1b, n1last, n2, bool(deep))
	attrs = to_refs(tree)
	data_attrs = {path: attr.types.fullyname for path, attr in seqs.expand(attrs, iter_key='attrs').items()}
	try:
		got = shape_of(_SER._deserialize_attrs({k: StubRef(k) for k in KEYS}, data_attrs))
	except Exception as e:  # noqa: BLE001
		got = f'{type(e).__name__}: {e}'
	return f'attribute paths {list(data_attrs.keys())!r}: restored {got!r}, exported {_plain(tree)!r}'


# ---------------------------------------------------------------- O3 export order / import of a stub module
CLASS_KEYS = ['m#A', 'm#B', 'm#C']
OTHER = 'o#Z'
PERMS = list(itertools.permutations(range(5)))


class StubSerializer:
	"""serialize/deserialize as ReflectionSerializer does for the fields the ordering matters for: origin / via / attrs
	are looked up in the table at import time"""

	def serialize(self, symbol: StubRef) -> dict:
		flat = seqs.expand(symbol.attrs, iter_key='attrs')
		origin = symbol._origin.key if symbol._origin else symbol.key
		return {'class': 'Reflection' if symbol._origin else 'Symbol', 'origin': origin, 'attrs': {p: a.types.fullyname for p, a in flat.items()}}

	def deserialize(self, db, data: dict) -> StubRef:
		if data['class'] == 'Symbol':
			sym = StubRef(data['types_key'] if 'types_key' in data else data['origin'])
		else:
			sym = db[data['origin']].stack()
		attrs = _SER._deserialize_attrs(db, data['attrs'])
		return sym.extends(*attrs) if attrs else sym


def check_order(perm: int, r0: int, r1: int, r2: int, nested: bool) -> bool:
	"""module m: three classes A B C and two declarations x y; x: origin = class r0 with attrs [class r1 [class r2]] (nested) or
	[class r1, class r2]; y: origin = o#Z (other module) with attr class r2; class B has attr class r0 when r0 != 1. The five rows are
	inserted in a symbolic order (declaration order)."""
	def cls(i: int) -> str:
		return CLASS_KEYS[i]
	other = StubRef(OTHER)
	table = {k: StubRef(k) for k in CLASS_KEYS}
	if r0 != 1:
		table['m#B'].extends(table[cls(r0)].stack())
	x = table[cls(r0)].stack()
	inner = table[cls(r2)].stack()
	mid = table[cls(r1)].stack()
	if nested:
		mid.extends(inner)
		x.extends(mid)
	else:
		x.extends(mid, inner)
	x.key = 'm#x'
	y = other.stack()
	y.extends(table[cls(r2)].stack())
	y.key = 'm#y'
	rows = [('m#A', table['m#A']), ('m#B', table['m#B']), ('m#C', table['m#C']), ('m#x', x), ('m#y', y)]
	# a class symbol's own attributes are its template types, declared (TypeVar) ahead of the class and of every signature
	# that mentions the class: skip declaration orders in which the class B refers to comes after B, x or y
	# (such a table is not reachable from a module; see DESIGN.md C14)
	pos = list(PERMS[perm])
	if r0 != 1 and pos.index(r0) > min(pos.index(1), pos.index(3), pos.index(4)):
		# reachable through string annotations (`def f() -> 'Box[int]'` ahead of `T = TypeVar('T')` and `class Box(Generic[T])`);
		# these orders were skipped as unrealistic until a seeding agent showed the module - the skip hid a genuine defect (DESIGN.md C14)
		cover('forward_referenced_order')
	db = SymbolDB()
	db[OTHER] = other
	for i in PERMS[perm]:
		db[rows[i][0]] = rows[i][1]
	order = db._order_keys('m')
	keys_m = [k for k, _ in rows]
	# every key of the module is exported, nothing foreign, nothing twice
	if sorted(order) != sorted(keys_m):
		return False

	def refs(sym: StubRef) -> list:
		out = [sym.types.fullyname]
		for a in sym.attrs:
			out.extend(refs(a))
		return out
	# export order: every key of the same module a row refers to precedes the row
	for pos, k in enumerate(order):
		for ref in refs(dict(rows)[k]):
			if ref.startswith('m#') and ref != k and ref not in order[:pos]:
				return False
	cover('ordered')
	# import into a table that holds only the other module: never refers to a missing key, restores every row, marks completion
	ser = StubSerializer()
	exported = db.to_json(ser, 'm')  # type: ignore
	if list(exported.keys()) != order:
		return False
	fresh = SymbolDB()
	fresh[OTHER] = StubRef(OTHER)
	fresh.import_json(ser, exported)  # type: ignore  (SymbolNotDefined = counterexample)
	for k, sym in rows:
		if k not in fresh or shape_of(fresh[k].attrs) != shape_of(sym.attrs):
			return False
	if not fresh.completed('m') or fresh.completed('o'):
		return False
	# importing the same data twice changes nothing
	fresh.import_json(ser, exported)  # type: ignore
	return all(shape_of(fresh[k].attrs) == shape_of(sym.attrs) for k, sym in rows) and len(fresh) == 6


PERM = CASE.get('perm_block')


def order_law(perm: int, r0: int, r1: int, r2: int, nested: bool) -> bool:
	"""
	pre: 0 <= perm < len(PERMS) and 0 <= r0 < 3 and 0 <= r1 < 3 and 0 <= r2 < 3
	pre: PERM is None or perm // 20 == PERM
	post: _
	"""
	return ok(natively(check_order, decode(perm, len(PERMS)), decode(r0, 3), decode(r1, 3), decode(r2, 3), True if nested else False))


def explain_order(perm: int, r0: int, r1: int, r2: int, nested: bool) -> str:
	return f'declaration order {PERMS[perm]} of [A, B, C, x, y], x: {CLASS_KEYS[r0]}[{CLASS_KEYS[r1]}, {CLASS_KEYS[r2]}] nested={nested}: export order / import / completion mark differs from the reference'


CLASSIFIERS: dict = {}
EXPLAIN = {'attrs_law': explain_attrs, 'order_law': explain_order}
