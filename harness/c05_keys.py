"""C05 sentence 1 — "the output obtained with whatever cache files earlier runs left behind equals the output of the same run started
with an empty cache directory": the cache *keys* cover what the cached values depend on.

Three step laws over the real key computations (one run leaves a file behind, the source state changes, the next run looks a file up),
plus a closed obligation over edit / run / clear histories of generated module graphs through the real pipeline (harness.c05_pipeline):

  tree_key_law      (S)  SyntaxParserOfLark.__call__ -> __load_parser / __load_entry with symbolic float mtimes of the grammar and the
                         source: whenever a mtime differs between two runs the second run parses the current source again.
  proxy_key_law     (F)  CacheProvider.get / CachedProxy over an in-memory file system: the stored instance of run 1 is only handed out
                         in run 2 for the same cache key and identity.
  symbols_key_law   (F)  Module.identity over every import graph of 4 modules: editing a module of the dependency cone of A changes A's
                         identity (the name of A's symbol-table file). Split into the cone at distance <= 1 and the cone beyond.
"""
import fnmatch
import io

from vlib.prelude import CASE, cover, decode, known_classes, natively, ok

from rogw.tranp.cache import cache as cache_module
from rogw.tranp.cache.cache import CacheProvider, CacheSetting
from rogw.tranp.implements.syntax.lark import parser as parser_module
from rogw.tranp.implements.syntax.lark.parser import SyntaxParserOfLark
from rogw.tranp.module.module import Module
from rogw.tranp.module.types import ModulePath
from rogw.tranp.syntax.ast.parser import ParserSetting


# -- tree_key_law ---------------------------------------------------------------

class _FS:
	"""`str(<float>)` as seen by lark/parser.py: an injective rendering (repr of a float round-trips), compared by value"""

	def __init__(self, x) -> None:
		self.x = x

	def __eq__(self, other) -> bool:
		return isinstance(other, _FS) and self.x == other.x

	def __ne__(self, other) -> bool:
		return not self.__eq__(other)

	def __hash__(self) -> int:
		return 0


def _str_shim(x='', *a, **kw):
	if isinstance(x, float) and not a and not kw:
		return _FS(x)
	if type(x).__name__ in ('SymbolicFloat', 'RealBasedSymbolicFloat', 'PreciseIeeeSymbolicFloat'):
		return _FS(x)
	return str(x, *a, **kw)


class _FakeLark:
	"""lark.Lark as seen by lark/parser.py: parse(text) hands the text back (the law is about *which* text gets parsed)"""

	def __init__(self, grammar, **options) -> None:
		self.grammar = grammar

	def parse(self, text: str):
		return ('tree-of', text, self.grammar)


class _LarkModule:
	Lark = _FakeLark
	Tree = tuple
	Token = str


class _Datums:
	def __init__(self, world: dict) -> None:
		self.world = world

	def mtime(self, path: str):
		return self.world['g']

	def load(self, path: str) -> str:
		return self.world['grammar']


class _TreeSources:
	def __init__(self, world: dict) -> None:
		self.world = world

	def exists(self, path: str) -> bool:
		return True

	def mtime(self, path: str):
		return self.world['m']


class _ModelCaches:
	"""CacheProvider + CachedProxy as a store keyed by (cache key, identity, options): the behaviour proxy_key_law establishes for the
	real classes (a stored instance is handed out again exactly for an equal key and identity)."""

	def __init__(self, files: list) -> None:
		self.files = files

	def get(self, cache_key: str, identity: dict = {}, **options):
		def decorator(wrapped):
			def wrapper():
				for k, ident, inst in self.files:
					if k == cache_key and ident == identity:
						cover('served-from-cache')
						return inst
				inst = wrapped()
				self.files[:] = [e for e in self.files if e[0] != cache_key] + [(cache_key, identity, inst)]
				return inst
			return wrapper
		return decorator


def _tree_run(files: list, world: dict):
	parser_module.str = _str_shim  # type: ignore
	parser_module.lark = _LarkModule  # type: ignore
	try:
		p = SyntaxParserOfLark(_Datums(world), _TreeSources(world), lambda module_path: world['source'], ParserSetting(grammar='data/grammar.lark'), _ModelCaches(files))  # type: ignore
		return p('gm.a').source
	finally:
		del parser_module.str  # type: ignore
		import lark
		parser_module.lark = lark  # type: ignore


def tree_key_law(m1: float, m2: float, g1: float, g2: float) -> bool:
	"""
	pre: 0.0 <= m1 < 4000000000.0 and 0.0 <= m2 < 4000000000.0
	pre: 0.0 <= g1 < 4000000000.0 and 0.0 <= g2 < 4000000000.0
	post: _
	"""
	files: list = []
	first = _tree_run(files, {'m': m1, 'g': g1, 'source': 'v1', 'grammar': 'G1'})
	if first != ('tree-of', 'v1', 'G1'):
		return ok(False)
	second = _tree_run(files, {'m': m2, 'g': g2, 'source': 'v2' if m1 != m2 else 'v1', 'grammar': 'G2' if g1 != g2 else 'G1'})
	if m1 != m2:
		cover('source-edited')
	if g1 != g2:
		cover('grammar-edited')
	if m1 == m2 and g1 == g2:
		cover('unchanged')
	# the run with an empty cache directory parses the current source with the current grammar
	return ok(second == ('tree-of', 'v2' if m1 != m2 else 'v1', 'G2' if g1 != g2 else 'G1'))


# -- proxy_key_law --------------------------------------------------------------

FILES: dict = {}


class _Path:
	sep = '/'

	@staticmethod
	def exists(p) -> bool:
		p = str(p)
		return p in FILES or any(k.startswith(p.rstrip('/') + '/') for k in FILES)

	@staticmethod
	def abspath(p) -> str:
		return '/abs/' + str(p).lstrip('/')

	@staticmethod
	def join(*a) -> str:
		return '/'.join(str(x).strip('/') for x in a if x)

	@staticmethod
	def dirname(p) -> str:
		return str(p).rsplit('/', 1)[0]


class _Os:
	path = _Path()
	sep = '/'

	@staticmethod
	def getcwd() -> str:
		return '/cwd'

	@staticmethod
	def makedirs(p, *a, **kw) -> None:
		pass

	@staticmethod
	def unlink(p) -> None:
		del FILES[str(p)]


class _Glob:
	@staticmethod
	def glob(pattern) -> list:
		"""like glob.glob without recursion: a wildcard never crosses a directory separator"""
		want = str(pattern).split('/')
		out = []
		for k in FILES:
			have = k.split('/')
			if len(have) == len(want) and all(fnmatch.fnmatchcase(h, w) for h, w in zip(have, want)):
				out.append(k)
		return sorted(out)

	@staticmethod
	def escape(pathname: str) -> str:
		import glob
		return glob.escape(pathname)


class _File(io.BytesIO):
	def __init__(self, path: str, mode: str) -> None:
		if 'r' in mode and path not in FILES:
			raise FileNotFoundError(path)
		super().__init__(FILES[path] if 'r' in mode else b'')
		self._path = path
		self._mode = mode

	def close(self) -> None:
		if 'w' in self._mode:
			FILES[self._path] = self.getvalue()
		super().close()


def _open(path, mode='r', *a, **kw):
	return _File(str(path), mode)


class Thing:
	def __init__(self, tag: str) -> None:
		self.tag = tag

	@classmethod
	def load(cls, stream) -> 'Thing':
		return Thing('loaded:' + stream.read().decode())

	def save(self, stream) -> None:
		stream.write(self.tag.encode())


KEYS = ['gm/a', 'gm/b', 'gm/a-symbols']
VALUES = ['1700000000.25', '1700000000.75', '1700000001.25']


BASEDIRS = ['.cache', '.cache-x/t-1', 'w[1]/.cache']


def proxy_key_law(k1: int, k2: int, v1: int, v2: int, w1: int, w2: int, fmt: int) -> bool:
	"""
	pre: 0 <= k1 < 3 and 0 <= k2 < 3 and 0 <= v1 < 3 and 0 <= v2 < 3 and 0 <= w1 < 2 and 0 <= w2 < 2 and 0 <= fmt < 6
	post: _
	"""
	return ok(natively(_proxy_key, decode(k1, 3), decode(k2, 3), decode(v1, 3), decode(v2, 3), decode(w1, 2), decode(w2, 2), decode(fmt, 6)))


def _proxy_key(k1: int, k2: int, v1: int, v2: int, w1: int, w2: int, fmt: int) -> bool:
	basedir = BASEDIRS[fmt // 2]
	fmt = fmt % 2
	saved = (cache_module.os, cache_module.glob, getattr(cache_module, 'open', None))
	cache_module.os, cache_module.glob, cache_module.open = _Os(), _Glob(), _open  # type: ignore
	try:
		FILES.clear()
		options = {'format': 'json'} if fmt else {}

		def run(key: int, v: int, w: int, tag: str) -> str:
			provider = CacheProvider(CacheSetting(basedir=basedir, enabled=True))  # a new process

			def factory() -> Thing:
				return Thing(tag)
			return provider.get(KEYS[key], identity={'grammar_mtime': VALUES[w], 'mtime': VALUES[v]}, **options)(factory)().tag

		a = run(k1, v1, w1, 'A')
		first = sorted(FILES)
		b = run(k2, v2, w2, 'B')
		same = (k1, v1, w1) == (k2, v2, w2)
		cover('same' if same else 'different')
		if not (a == 'A' and b == ('loaded:A' if same else 'B')):
			return False
		if k1 == k2 and not same:
			# eviction: the file an earlier run stored for the same cache key under another identity is gone, so that a later run
			# whose identity happens to equal the older one (an mtime that comes back) cannot be served the older content
			cover('evicted')
			return len(first) == 1 and first[0] not in FILES
		return True
	finally:
		cache_module.os, cache_module.glob = saved[0], saved[1]
		if saved[2] is None:
			del cache_module.open  # type: ignore
		else:
			cache_module.open = saved[2]  # type: ignore


# -- symbols_key_law ------------------------------------------------------------

N = 4
PAIRS = [(0, 1), (0, 2), (0, 3), (1, 2), (1, 3), (2, 3)]


class _ImportPath:
	def __init__(self, tokens: str) -> None:
		self.tokens = tokens


class _Import:
	def __init__(self, tokens: str) -> None:
		self.import_path = _ImportPath(tokens)


class _Entrypoint:
	def __init__(self, imports: list) -> None:
		self.imports = imports


class _HashSources:
	def __init__(self, versions: list) -> None:
		self.versions = versions

	def exists(self, path: str) -> bool:
		return True

	def hash(self, path: str) -> str:
		j = int(path.split('/m')[-1].split('.')[0])
		return f'{path}#{self.versions[j]}'


def edges_of(bits: list) -> dict:
	edges: dict = {}
	for (i, j), b in zip(PAIRS, bits):
		if b:
			edges.setdefault(i, []).append(j)
	return edges


def identities(edges: dict, versions: list) -> list:
	"""the real Module.identity of every module of the graph, each on a fresh Module (one run)"""
	out = []
	for a in range(N):
		m = Module(_HashSources(versions), ModulePath(f'gm.m{a}', 'py'), _Entrypoint([_Import(f'gm.m{j}') for j in edges.get(a, [])]))  # type: ignore
		out.append(m.identity())
	return out


def _symbols_key(bits: list, x: int, far: bool) -> tuple:
	from harness.c05_graph import cone_dist
	edges = edges_of(bits)
	before = identities(edges, [0] * N)
	after = identities(edges, [1 if j == x else 0 for j in range(N)])
	bad = []
	for a in range(N):
		d = cone_dist(edges, a).get(x)
		if d is None:
			continue
		if (d >= 2) != far:
			continue
		cover(f'dist{min(d, 2)}')
		if before[a] == after[a]:
			bad.append((a, d))
	return edges, bad


def symbols_key_law(e01: bool, e02: bool, e03: bool, e12: bool, e13: bool, e23: bool, x: int) -> bool:
	"""
	pre: 0 <= x < 4
	post: _
	"""
	x = decode(x, N)
	bits = [True if e else False for e in (e01, e02, e03, e12, e13, e23)]
	_, bad = natively(_symbols_key, bits, x, bool(CASE.get('far')))
	return ok(not bad)


def explain_symbols_key(e01, e02, e03, e12, e13, e23, x) -> str:
	edges, bad = _symbols_key([e01, e02, e03, e12, e13, e23], x, bool(CASE.get('far')))
	return f'imports {edges}: editing gm.m{x} leaves Module.identity() (the symbol-table file name) of ' + ', '.join(f'gm.m{a} (import distance {d})' for a, d in bad) + ' unchanged'


def confirm_symbols_key(e01, e02, e03, e12, e13, e23, x) -> tuple:
	"""end-to-end demonstration through the real pipeline with the real on-disk caches: run, edit gm.m<x>, run again vs. an empty cache directory"""
	from harness import c05_pipeline as pl
	edges = edges_of([e01, e02, e03, e12, e13, e23])
	w = pl.World(edges, N)
	try:
		w.run_warm()
		w.edit(x, 1)
		warm, cold = w.run_warm(), w.run_cold()
		diff = [k for k in warm if warm[k] != cold[k]]
		if not diff:
			return False, 'the pipeline output with the cache left behind equals the cold output'
		k = diff[0]
		wl = [ln for ln in warm[k].split('\n') if ln not in cold[k].split('\n')]
		cl = [ln for ln in cold[k].split('\n') if ln not in warm[k].split('\n')]
		return True, f'pipeline: run, edit gm.m{x}, run -> output of {diff} differs from the run with an empty cache directory: warm {wl[:2]!r} vs cold {cl[:2]!r}'
	finally:
		w.close()


def classify_symbols_key(e01, e02, e03, e12, e13, e23, x) -> str | None:
	return 'transitive-import-not-in-symbols-key' if CASE.get('far') else None


CLASSIFIERS = {'symbols_key_law': classify_symbols_key}
CONFIRM = {'symbols_key_law': confirm_symbols_key}
EXPLAIN = {
	'symbols_key_law': explain_symbols_key,
	'tree_key_law': lambda m1, m2, g1, g2: f'source mtime {m1!r} -> {m2!r}, grammar mtime {g1!r} -> {g2!r}: the second run is served the syntax tree stored by the first',
	'proxy_key_law': lambda k1, k2, v1, v2, w1, w2, fmt: f'run 1 stores under key {KEYS[k1]!r} identity mtime={VALUES[v1]} grammar_mtime={VALUES[w1]}; run 2 asks key {KEYS[k2]!r} identity mtime={VALUES[v2]} grammar_mtime={VALUES[w2]}; files {sorted(FILES)}',
}
