"""C14 — export / import of the symbol table through the real pipeline (closed obligation over generated multi-module programs).

Real code: the complete in-memory pipeline for several modules, SymbolDB.to_json / import_json / completed, the real
ReflectionSerializer (serialize / deserialize / _deserialize_attrs), Entrypoints, Symbol / Reflection.
For every module M of each program: export M, import it into a table that holds only the other modules' symbols, and compare symbol by
symbol (type description with nested type arguments, declaration, node, via); the module counts as completed; a second import
changes nothing. No free variable (labelled closed); the solver-based part of C14 is harness/c14_symbols.py.
"""
import os

from vlib import prelude
from vlib.prelude import cover, ok

from tv import driver

from rogw.tranp.cache.cache import CacheSetting
from rogw.tranp.lang.locator import Invoker
from rogw.tranp.lang.module import to_fullyname
from rogw.tranp.module.modules import Modules
from rogw.tranp.module.types import ModulePath, ModulePaths
from rogw.tranp.providers.syntax.ast import source_provider
from rogw.tranp.semantics.reflection.db import SymbolDB
from rogw.tranp.semantics.reflection.helper.naming import ClassShorthandNaming
from rogw.tranp.semantics.reflection.serialization import IReflectionSerializer
from rogw.tranp.syntax.ast.parser import SourceProvider

PROGRAMS = [
	{
		'pkg_a': 'from typing import Generic, TypeVar\n\nT = TypeVar("T")\n\nclass A:\n\tn: int\n\n\tdef __init__(self, n: int) -> None:\n\t\tself.n = n\n\nclass G(Generic[T]):\n\tv: T\n\n\tdef __init__(self, v: T) -> None:\n\t\tself.v = v\n\n\tdef get(self) -> T:\n\t\treturn self.v\n',
		'pkg_b': 'from pkg_a import A, G\n\nclass Later:\n\tx: int\n\n\tdef __init__(self) -> None:\n\t\tself.x = 0\n\nclass B(A):\n\titems: list[G[A]]\n\ttable: dict[str, list[tuple[int, A]]]\n\n\tdef __init__(self) -> None:\n\t\tsuper().__init__(1)\n\t\tself.items = []\n\t\tself.table = {}\n\n\tdef many(self, p0: int, p1: str, p2: float, p3: bool, p4: int, p5: str, p6: A, p7: G[int], p8: list[int], p9: dict[str, int], p10: Later, p11: tuple[int, str]) -> G[Later]:\n\t\treturn G[Later](p10)\n\ndef use(b: B) -> int:\n\tg = b.many(0, "", 0.0, True, 1, "", b, G[int](1), [], {}, Later(), (1, ""))\n\treturn g.get().x\n',
	},
	{
		'pkg_a': 'from enum import Enum\n\nclass E(Enum):\n\tX = 1\n\tY = 2\n\nclass Base:\n\tk: E\n\n\tdef __init__(self) -> None:\n\t\tself.k = E.X\n\n\tdef kind(self) -> E:\n\t\treturn self.k\n',
		'pkg_b': 'from pkg_a import Base, E\n\nclass D(Base):\n\tdef both(self, other: Base) -> tuple[E, E]:\n\t\treturn (self.kind(), other.kind())\n\ndef f(ds: list[D]) -> dict[str, E]:\n\tout: dict[str, E] = {}\n\tfor d in ds:\n\t\tout["a"] = d.kind()\n\treturn out\n',
		'pkg_c': 'from pkg_a import E\nfrom pkg_b import D, f\n\ndef g() -> E:\n\tr = f([D()])\n\treturn r["a"]\n',
	},
	{
		# imported module-level variables whose types have arguments (annotated and inferred), directly and through a re-exporting
		# module; a function that mentions a generic class declared later through string annotations
		'pkg_a': 'DEFAULTS: dict[str, list[int]] = {}\nNAMES = [\'x\', \'y\']\nLIMIT = 3\n',
		'pkg_b': 'from pkg_a import DEFAULTS, NAMES\n\ndef width() -> int:\n\treturn len(NAMES) + len(DEFAULTS)\n',
		'pkg_c': 'from typing import Generic, TypeVar\nfrom pkg_a import LIMIT\nfrom pkg_b import DEFAULTS, NAMES, width\n\ndef make() -> \'Box[int]\':\n\treturn Box[int](LIMIT)\n\ndef nested() -> \'dict[str, Box[Later]]\':\n\treturn {}\n\nT = TypeVar(\'T\')\n\nclass Box(Generic[T]):\n\tv: T\n\n\tdef __init__(self, v: T) -> None:\n\t\tself.v = v\n\nclass Later:\n\tn: int = 0\n\ndef use() -> int:\n\tfirst = NAMES[0]\n\trow = DEFAULTS[first]\n\treturn row[0] + width() + make().v\n',
	},
]


def describe(raw) -> tuple:
	"""type description with nested type arguments + where it is declared / which node it stands for"""
	return (raw.types.fullyname, ClassShorthandNaming.domain_name_for_debug(raw), tuple(describe_attr(a) for a in raw.attrs), raw.decl.fullyname, raw.node.fullyname, raw.via.types.fullyname)


def describe_attr(raw) -> tuple:
	return (raw.types.fullyname, tuple(describe_attr(a) for a in raw.attrs))


def check_program(program: dict) -> str:
	"""-> '' or a description of the first difference"""
	app = driver.make_app(program, list(program.keys()))
	modules = app.resolve(Modules)
	for name in program:
		modules.load(name)
	db = app.resolve(SymbolDB)
	serializer = app.resolve(IReflectionSerializer)
	for m in program:
		data = db.to_json(serializer, m)
		keys_m = [k for k, _ in db.items(m)]
		if sorted(data.keys()) != sorted(keys_m):
			return f'{m}: exported keys {sorted(data.keys())[:5]} differ from the module\'s keys'
		fresh = SymbolDB()
		for k, raw in db.items():
			if k not in keys_m:
				fresh[k] = raw
		try:
			fresh.import_json(serializer, data)
		except Exception as e:  # noqa: BLE001
			return f'{m}: import raises {type(e).__name__}: {str(e)[:200]}'
		for k in keys_m:
			cover('symbol')
			if k not in fresh:
				return f'{m}: key {k} missing after import'
			if describe(fresh[k]) != describe(db[k]):
				return f'{m}: {k}: restored {describe(fresh[k])!r} != original {describe(db[k])!r}'
		if not fresh.completed(m):
			return f'{m}: not marked completed after import'
		before = {k: describe(fresh[k]) for k in keys_m}
		fresh.import_json(serializer, data)
		if {k: describe(fresh[k]) for k in keys_m} != before or len(fresh) != len(db):
			return f'{m}: importing the same data twice changes the table'
	return ''


def pipeline_closed() -> bool:
	for program in PROGRAMS:
		if check_program(program):
			return ok(False)
		cover('program')
	return ok(True)


def explain_pipeline() -> str:
	for program in PROGRAMS:
		d = check_program(program)
		if d:
			return d
	return 'no difference'


EXPLAIN = {'pipeline_closed': explain_pipeline}
CLASSIFIERS: dict = {}
