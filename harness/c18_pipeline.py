"""C18 through the real pipeline (closed obligation): where Py2Cpp decomposes rendered text with the fragment helpers, the pieces it
emits are the pieces of the source. Dict comprehensions: the rendered `{key: value}` projection is split into key and value; the
emitted `__ret[<key>] = <value>;` must carry the text the transpiler emits for the key and for the value expression on their own.
"""
import re

from vlib.prelude import cover, ok

from tv import driver

HEAD = 'def h(a: int, b: int) -> int:\n\treturn a\n\n'
CASES = [
	# (parameters, iteration, key expression, value expression, value type)
	('xs: dict[str, int], n: int', 'k, v in xs.items()', 'k', 'v + n', 'int', 'str'),
	('xs: dict[str, int], n: int', 'k, v in xs.items()', 'k', 'v', 'int', 'str'),
	('ks: list[int], n: int', 'k in ks', 'k * 2', 'h(k, n) - 1', 'int', 'int'),
	('ks: list[int], n: int', 'k in ks', 'h(k, n)', 'k if k > n else n', 'int', 'int'),
	('ks: list[int], n: int', 'k in ks', 'k', '(k + 1) * (n - 1)', 'int', 'int'),
	('ks: list[int], n: int', 'k in ks', 'k', '[k, n]', 'list[int]', 'int'),
	('xs: dict[str, int], n: int', 'k, v in xs.items()', 'k', '{v: n}', 'dict[int, int]', 'str'),
	('ks: list[str], n: int', 'k in ks', 'k + ":"', 'n', 'int', 'str'),
	('ks: list[str], n: int', 'k in ks', 'k', '"a, b: c"', 'str', 'str'),
]
NOTES: list = []


def emitted_expr(params: str, loop_vars: str, expr: str, typ: str) -> str:
	"""the text the transpiler emits for the expression on its own (as a return value)"""
	vars_ = ', '.join(f'{v.strip()}: {"str" if "str" in params.split(":")[1].split(",")[0] and v.strip() == "k" else "int"}' for v in loop_vars.split(' in ')[0].split(','))
	src = HEAD + f'def e({vars_}, n: int) -> {typ}:\n\treturn {expr}\n'
	text = driver.transpile(src)
	m = re.search(r'\be\(.*\) \{\n\treturn (.*?);\n\}', text, re.S)
	return m.group(1) if m else '<?>'


def dictcomp_closed() -> bool:
	del NOTES[:]
	for params, loop, key, value, vtype, ktype in CASES:
		cover('member')
		src = HEAD + f'def f({params}) -> dict[{ktype}, {vtype}]:\n\treturn {{{key}: {value} for {loop}}}\n'
		text = driver.transpile(src)
		m = re.search(r'__ret\[(.*?)\] = (.*?);\n\t+\}', text, re.S)
		if not m:
			NOTES.append(f'{{{key}: {value} for {loop}}}: no `__ret[...] = ...;` in the emitted text')
			continue
		want_key = emitted_expr(params, loop, key, ktype)
		want_value = emitted_expr(params, loop, value, vtype)
		squeeze = lambda s: re.sub(r'\s+', '', s)  # noqa: E731
		if squeeze(m.group(1)) != squeeze(want_key) or squeeze(m.group(2)) != squeeze(want_value):
			NOTES.append(f'{{{key}: {value} for {loop}}}: emitted `__ret[{m.group(1)}] = {m.group(2)};`, the key renders as {want_key!r} and the value as {want_value!r}')
	return ok(not NOTES)


EXPLAIN = {'dictcomp_closed': lambda: ' ; '.join(NOTES[:3])}
