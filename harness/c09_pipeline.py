"""C09 through the real pipeline (closed obligation): the event/stack contract of Procedure on *loaded* modules, where handlers
resolve types the way Py2Cpp's handlers do (nested processing + symbol resolution in the middle of a run).

For each program (in-memory modules through tv.driver.make_app, real Modules.load with every preprocessor):
  A. the real Py2Cpp.transpile of every module ends with exactly one result (no Errors.Logic about the stack);
  B. a recording Procedure over the loaded entrypoint whose handler calls Reflections.type_of on every node it is given:
     each handler call receives, per child property, exactly the tokens of the nodes that property yielded *when the tree was
     flattened* (snapshot taken before the run), the run ends with the root's token, and a second run agrees.
"""
from vlib.prelude import cover, ok

from tv import driver

from rogw.tranp.errors import Errors
from rogw.tranp.module.modules import Modules
from rogw.tranp.semantics.procedure import Procedure
from rogw.tranp.semantics.reflections import Reflections
from rogw.tranp.syntax.node.node import Node
from rogw.tranp.transpiler.types import ITranspiler

GENERIC = "from typing import Generic, TypeVar\n\nT = TypeVar('T')\n\nclass GenBase(Generic[T]):\n\tvalue: T\n\n\tdef __init__(self, v: T) -> None:\n\t\tself.value = v\n\nclass IntSub(GenBase[int]):\n\tdef get(self) -> int:\n\t\treturn self.value\n\nclass Plain(IntSub):\n\tdef twice(self) -> int:\n\t\treturn self.get() + self.value\n"
LIB = 'def a() -> int:\n\treturn 1\n\ndef b() -> int:\n\treturn 2\n\ndef c() -> int:\n\treturn 3\n'
PROGRAMS = [
	('generic-inheritance', {'c09.main': GENERIC}),
	('import-one', {'c09.lib': LIB, 'c09.main': 'from c09.lib import a\n\ndef f() -> int:\n\treturn a()\n'}),
	('import-two', {'c09.lib': LIB, 'c09.main': 'from c09.lib import a, b\n\ndef f() -> int:\n\treturn a() + b()\n'}),
	('import-three', {'c09.lib': LIB, 'c09.main': 'from c09.lib import a, b, c\n\ndef f() -> int:\n\treturn a() + b() + c()\n'}),
	('try-one', {'c09.main': 'def f(n: int) -> int:\n\tx = n + 1\n\ttry:\n\t\tx = x + 1\n\t\tprint(x)\n\texcept Exception as e:\n\t\tprint(n)\n\treturn x\n'}),
	('try-two', {'c09.main': 'def f(n: int) -> int:\n\tx = n + 1\n\ttry:\n\t\tx = x + 1\n\texcept Exception as e:\n\t\tprint(n)\n\texcept Exception as e2:\n\t\tprint(x)\n\treturn x\n'}),
	('control', {'c09.main': 'from enum import Enum\n\nclass E(Enum):\n\tA = 1\n\tB = 2\n\nclass K:\n\tn: int = 0\n\n\tdef __init__(self, n: int) -> None:\n\t\tself.n = n\n\n\t@classmethod\n\tdef make(cls, n: int) -> \'K\':\n\t\treturn cls(n)\n\n\tdef add(self, xs: list[int], d: dict[str, int]) -> int:\n\t\tt = self.n\n\t\tfor i, x in enumerate(xs):\n\t\t\tif x > 0 and i < 3:\n\t\t\t\tt += x\n\t\t\telif x == 0:\n\t\t\t\tcontinue\n\t\t\telse:\n\t\t\t\tbreak\n\t\tfor k, v in d.items():\n\t\t\tt += v if k else 0\n\t\tys = [y + 1 for y in xs]\n\t\twhile t > 10:\n\t\t\tt -= 1\n\t\treturn t + len(ys) + E.A.value\n'}),
]
NOTES: list = []


def walk(node: Node) -> list:
	out = [node]
	for k in node.prop_keys():
		v = getattr(node, k)
		for child in (v if isinstance(v, list) else [v]):
			out.extend(walk(child))
	return out


def token(node: Node):
	return ('R', node.full_path)


def snapshot(root: Node) -> dict:
	snap = {}
	for n in walk(root):
		props = {}
		for k in n.prop_keys():
			v = getattr(n, k)
			props[k] = [token(x) for x in v] if isinstance(v, list) else token(v)
		snap[n.full_path] = props
	return snap


class Recorder:
	def __init__(self, snap: dict, reflections: Reflections) -> None:
		self.snap = snap
		self.reflections = reflections
		self.errors: list = []
		self.procedure = Procedure[object]()
		self.procedure.on('on_fallback', self.on_fallback)

	def on_fallback(self, node: Node, **event):
		want = self.snap.get(node.full_path, {})
		if set(event.keys()) != set(want.keys()):
			self.errors.append((node.full_path, 'keys', sorted(event.keys()), sorted(want.keys())))
		for k, w in want.items():
			if event.get(k, '<missing>') != w:
				self.errors.append((node.full_path, k, event.get(k, '<missing>'), w))
		# what Py2Cpp's handlers do in the middle of a run: resolve the type of the node at hand (nested processing + symbol lookups)
		try:
			self.reflections.type_of(node)
			cover('type_resolved')
		except Exception:  # noqa: BLE001  statements and declarations have no type: only the side effects matter here
			pass
		return token(node)


def check(name: str, program: dict) -> str | None:
	names = sorted(program)
	app = driver.make_app(program, names)
	modules = app.resolve(Modules)
	transpiler = app.resolve(ITranspiler)
	reflections = app.resolve(Reflections)
	for m in names:
		root = modules.load(m).entrypoint
		snap = snapshot(root)
		rec = Recorder(snap, reflections)
		try:
			result = rec.procedure.exec(root)
		except Errors.Error as e:
			return f'{name}: recording run over {m} raises {type(e).__name__}{e.args[1:]!r}'
		if rec.errors:
			return f'{name}: {m}: handler of {rec.errors[0][0]} was handed {rec.errors[0][2]!r} for {rec.errors[0][1]!r}, the tree yields {rec.errors[0][3]!r}'
		if result != token(root):
			return f'{name}: the run over {m} ends with {result!r}'
		rec2 = Recorder(snapshot(root), reflections)
		if rec2.procedure.exec(root) != token(root) or rec2.errors:
			return f'{name}: a second recording run over {m} differs: {rec2.errors[:1]!r}'
	# the real transpiler on a fresh application (the recording runs above must not have been needed)
	app = driver.make_app(program, names)
	modules = app.resolve(Modules)
	transpiler = app.resolve(ITranspiler)
	for m in names:
		try:
			text = transpiler.transpile(modules.load(m).entrypoint)
		except Errors.Logic as e:
			return f'{name}: Py2Cpp.transpile of {m} raises Logic{e.args[1:]!r}'
		if not isinstance(text, str) or not text:
			return f'{name}: Py2Cpp.transpile of {m} returns {text!r}'
		cover('transpiled')
	return None


def pipeline_closed() -> bool:
	del NOTES[:]
	for name, program in PROGRAMS:
		cover('member')
		bad = check(name, program)
		if bad:
			NOTES.append(bad)
	return ok(not NOTES)


EXPLAIN = {'pipeline_closed': lambda: ' ; '.join(NOTES[:4])}
