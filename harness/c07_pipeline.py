"""C07 — "for every input text ... parsing, loading, type resolution and transpilation either succeed or raise an exception of the
application error hierarchy ... the error rendering itself never fails": whole-pipeline obligations over generated program families.

Real code: the complete in-memory pipeline of tv.driver (SyntaxParserOfLark with the real Lark parser, Modules.load with every
preprocessor, Py2Cpp.transpile) and ErrorRender.render. Nothing is stubbed.

Closed obligations (C): the families are finite and every member is a whole-pipeline run (0.1-0.3 s), so the members are enumerated and
evaluated directly in parallel processes; no solver is involved in these two obligations (under CrossHair the same enumeration costs
2.7x more per program and decides nothing more). illtyped_law / mutation_law evaluate a single member (recorded witnesses, replays).

  illtyped_law  well-formed but ill-typed programs: template $VERIF_CASE.s with every type annotation x expression filling
  mutation_law  token-level mutations (delete / duplicate / replace / swap with the next) of valid base program $VERIF_CASE.base
"""
import re

from vlib.prelude import CASE, cover, decode, decode_bits, natively, ok

from tv import driver

from rogw.tranp.errors import Errors
from rogw.tranp.view.error_render import ErrorRender

TYPES = ['int', 'str', 'list[int]', 'dict[str, int]', 'dict[int]', 'list[int, int]', 'list', 'dict', 'tuple[int, str]', 'tuple[int]', 'Foo', 'int[int]', 'None', 'list[Foo]',
	"'int'", 'int | str', 'int | None', 'type[int]', 'dict[str, list[int]]', 'dict[str]', 'Callable[[int]]', 'list[dict[int]]', 'Foo.Bar', 'str.Bar']
EXPRS = ['a', 'a.x', 'a[0]', "a['k']", 'a()', 'a(1)', 'a.items()', 'a.keys()', 'a.append(1)', 'a + 1', "a + 's'", '-a', 'not a', 'a if a else 1', '[a]', '{a: a}', '(a, a)', 'a[0][0]', 'a.x.y', 'a[0].x',
	'len(a)', 'int(a)', 'str(a)', 'a[0:1]', '[x for x in a]', '{k: v for k, v in a}', '{k: v for k, v in a.items()}', 'lambda: a', 'undefined_name', 'a.undefined()', 'self.x', '1', 'None', '[T]', 'a.values()', 'a == a', 'a and 1']
SHAPES = [
	'def f(a: {T}) -> int:\n\tx = {E}\n\treturn 1\n',
	'def f(a: {T}) -> {T}:\n\treturn {E}\n',
	'def f(a: {T}) -> None:\n\tfor i in {E}:\n\t\tprint(i)\n',
	'def f(a: {T}) -> None:\n\tfor k, v in {E}:\n\t\tprint(k)\n',
	'def f(a: {T}) -> None:\n\tx, y = {E}\n\tprint(x)\n',
	'class C:\n\tdef m(self, a: {T}) -> int:\n\t\treturn {E}\n',
	'def f(a: {T}) -> None:\n\tx: {T} = {E}\n\tprint(x.y)\n',
	# one free slot only (the other one is ignored)
	'class C({T}):\n\tpass\n',
	'v: {T} = {{}}\nfor k, v2 in v.items():\n\tprint(k)\n',
	'v: {T} = []\nfor i in v:\n\tprint(i)\n',
	'class C:\n\tx: {T} = 1\n\tdef m(self) -> {T}:\n\t\treturn self.x\n',
	'def f() -> {T}:\n\treturn 1\n\nx = f()\ny = x.z\n',
	'a = 1\nclass C({E}):\n\tpass\n',
	'a = 1\n@{E}\ndef f() -> int:\n\treturn 1\n',
	'a = 1\nx = {E}\n',
	'a: int = 1\nx: int = {E}\ny = x.z\n',
]


def slots(s: int) -> tuple:
	"""(number of type fillings, number of expression fillings) template s really uses"""
	return (len(TYPES) if '{T}' in SHAPES[s] else 1, len(EXPRS) if '{E}' in SHAPES[s] else 1)


def program(s: int, t: int, e: int) -> str:
	return SHAPES[s].format(T=TYPES[t], E=EXPRS[e])


def outcome(source: str) -> str | None:
	"""None when the pipeline succeeds or reports an application error that renders; else what escaped"""
	try:
		driver.transpile(source)
		cover('accepted')
		return None
	except Errors.Error as e:
		cover('syntax_error' if isinstance(e, Errors.Syntax) else 'tranp_error')
		try:
			text = ErrorRender(e).render()
		except Exception as e2:  # noqa: BLE001
			return f'rendering {type(e).__name__} fails with {type(e2).__name__}: {str(e2)[:160]}'
		if not isinstance(text, str) or type(e).__name__ not in text:
			return f'rendering {type(e).__name__} gives {text[-80:]!r}'
		return None
	except Exception as e:  # noqa: BLE001
		import traceback
		tb = traceback.extract_tb(e.__traceback__)[-1]
		return f'{type(e).__name__} escapes ({tb.filename.split("/")[-1]}:{tb.lineno} {tb.name}): {str(e)[:120]}'


def illtyped_law(t: int, e: int) -> bool:
	"""
	pre: 0 <= t and 0 <= e
	post: _
	"""
	s = CASE['s']
	nt, ne = slots(s)
	if t >= nt or e >= ne:
		return True
	t, e = decode_bits(t, nt), decode_bits(e, ne)
	return ok(natively(outcome, program(s, t, e)) is None)


# -- token-level mutations --------------------------------------------------------

BASES = [
	'from typing import TypeVar\n\nT = TypeVar("T")\n\nclass A:\n\tn: int = 0\n\n\tdef __init__(self, n: int) -> None:\n\t\tself.n = n\n\n\t@classmethod\n\tdef make(cls, n: int) -> \'A\':\n\t\treturn cls(n)\n\n\tdef add(self, b: int) -> int:\n\t\treturn self.n + b\n\ndef f(a: T) -> T:\n\treturn a\n',
	'def g(xs: list[int], d: dict[str, int]) -> int:\n\tt = 0\n\tfor i, x in enumerate(xs):\n\t\tif x > 0 and i < 3:\n\t\t\tt += x\n\t\telif x == 0:\n\t\t\tcontinue\n\t\telse:\n\t\t\tbreak\n\tfor k, v in d.items():\n\t\tt += v if k else 0\n\twhile t > 10:\n\t\tt -= 1\n\treturn t\n',
	'from enum import Enum\n\nclass E(Enum):\n\tA = 1\n\tB = 2\n\ndef h(e: E, s: str) -> str:\n\ttry:\n\t\tif e == E.A:\n\t\t\traise Exception()\n\t\tys = [c for c in s.split(",")]\n\t\treturn f"{ys[0]}:{len(ys)}"\n\texcept Exception as x:\n\t\treturn (lambda: "")()\n',
]
REPLACEMENTS = ['(', ')', '[', ':', ',', '.', '=', '\n', '\n\t', '\n\t\t\t\t', 'def', '"', ']', '@', 'class', 'return', '1', 'x', "'", '->', '*', 'lambda', 'not', '\\', '#', '{', '}', ' ', '', 'self', 'T']
TOKEN = re.compile(r'\n\t*|[A-Za-z_][A-Za-z_0-9]*|\d+|"[^"\n]*"|\'[^\'\n]*\'|->|[<>=!+\-*/]=|\S| +')
OPS = ['delete', 'duplicate', 'swap', 'replace']


def tokens_of(base: int) -> list:
	return TOKEN.findall(BASES[base])


def mutate(base: int, op: int, i: int, r: int) -> str:
	toks = tokens_of(base)
	if OPS[op] == 'delete':
		toks = toks[:i] + toks[i + 1:]
	elif OPS[op] == 'duplicate':
		toks = toks[:i + 1] + toks[i:]
	elif OPS[op] == 'swap':
		if i + 1 < len(toks):
			toks[i], toks[i + 1] = toks[i + 1], toks[i]
	else:
		toks = toks[:i] + [REPLACEMENTS[r]] + toks[i + 1:]
	return ''.join(toks)


def mutation_law(op: int, i: int, r: int) -> bool:
	"""
	pre: 0 <= op < 4 and 0 <= i and 0 <= r
	post: _
	"""
	base = CASE['base']
	lo, hi = CASE.get('range', [0, 10 ** 6])
	n = len(tokens_of(base))
	if i < lo or i >= min(hi, n):
		return True
	nr = min(CASE.get('pool', len(REPLACEMENTS)), len(REPLACEMENTS))
	op = decode(op, 4)
	if OPS[op] != 'replace':
		if r != 0:
			return True
		r = 0
	elif r >= nr:
		return True
	i = lo + decode_bits(i - lo, min(hi, n) - lo)
	r = decode_bits(r, nr) if OPS[op] == 'replace' else 0
	cover(OPS[op])
	return ok(natively(outcome, mutate(base, op, i, r)) is None)


def illtyped_closed() -> bool:
	"""every (type, expression) filling of template $VERIF_CASE.s whose index is congruent to slice[0] modulo slice[1]"""
	s = CASE['s']
	k, m = CASE.get('slice', [0, 1])
	nt, ne = slots(s)
	del NOTES[:]
	for idx in range(nt * ne):
		if idx % m != k:
			continue
		t, e = idx // ne, idx % ne
		cover('member')
		bad = outcome(program(s, t, e))
		if bad:
			NOTES.append(f'{program(s, t, e)!r}: {bad}')
	return ok(not NOTES)


def mutation_closed() -> bool:
	"""every mutation of base program $VERIF_CASE.base at the token positions $VERIF_CASE.range with the first $VERIF_CASE.pool replacement tokens"""
	base = CASE['base']
	lo, hi = CASE.get('range', [0, 10 ** 6])
	nr = min(CASE.get('pool', len(REPLACEMENTS)), len(REPLACEMENTS))
	n = len(tokens_of(base))
	del NOTES[:]
	seen = set()
	for i in range(lo, min(hi, n)):
		for op in range(len(OPS)):
			for r in (range(nr) if OPS[op] == 'replace' else [0]):
				src = mutate(base, op, i, r)
				if src in seen:
					continue
				seen.add(src)
				cover(OPS[op])
				cover('member')
				bad = outcome(src)
				if bad:
					NOTES.append(f'{OPS[op]} token {i} ({tokens_of(base)[i]!r}{" -> " + repr(REPLACEMENTS[r]) if OPS[op] == "replace" else ""}) of base program {base}: {src!r}: {bad}')
	return ok(not NOTES)


def explain_illtyped(t, e) -> str:
	s = CASE['s']
	src = program(s, t, e)
	return f'{src!r}: {outcome(src)}'


def explain_mutation(op, i, r) -> str:
	src = mutate(CASE['base'], op, i, r)
	return f'{OPS[op]} token {i} ({tokens_of(CASE["base"])[i]!r}{" -> " + repr(REPLACEMENTS[r]) if OPS[op] == "replace" else ""}) of base program {CASE["base"]}: {src!r}: {outcome(src)}'


def bases_closed() -> bool:
	"""the three base programs of the mutation family are accepted (the mutations start from valid programs)"""
	for b in range(len(BASES)):
		try:
			driver.transpile(BASES[b])
			cover('base')
		except Exception as e:  # noqa: BLE001
			NOTES.append(f'base program {b} is not accepted: {type(e).__name__}: {e}')
			return ok(False)
	return ok(True)


NOTES: list = []
EXPLAIN = {'illtyped_law': explain_illtyped, 'mutation_law': explain_mutation, 'bases_closed': lambda: ' ; '.join(NOTES),
	'illtyped_closed': lambda: f'{len(NOTES)} programs: ' + ' ; '.join(NOTES[:4]), 'mutation_closed': lambda: f'{len(NOTES)} programs: ' + ' ; '.join(NOTES[:4])}

from harness.c07_shapes import BASE_TOKENS, SHAPES_N  # noqa: E402
assert SHAPES_N == len(SHAPES) and BASE_TOKENS == [len(tokens_of(b)) for b in range(len(BASES))], 'harness/c07_shapes.py is out of date'
