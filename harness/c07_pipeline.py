"""C07 — "for every input text ... parsing, loading, type resolution and transpilation either succeed or raise an exception of the
application error hierarchy ... the error rendering itself never fails": whole-pipeline obligations over generated program families.

Real code: the complete in-memory pipeline of tv.driver (SyntaxParserOfLark with the real Lark parser, Modules.load with every
preprocessor, Py2Cpp.transpile) and ErrorRender.render. Nothing is stubbed.

Closed obligations (C): the families are finite and every member is a whole-pipeline run (0.1-0.3 s), so the members are enumerated and
evaluated directly in parallel processes; no solver is involved in these two obligations (under CrossHair the same enumeration costs
2.7x more per program and decides nothing more). illtyped_law / mutation_law evaluate a single member (recorded witnesses, replays).

  illtyped_law  well-formed but ill-typed programs: template $VERIF_CASE.s with every type annotation x expression filling
  mutation_law  token-level mutations (delete / duplicate / replace / swap with the next) of valid base program $VERIF_CASE.base
"""
import re

from vlib.prelude import CASE, cover, decode, decode_bits, natively, ok

from tv import driver

from rogw.tranp.errors import Errors
from rogw.tranp.view.error_render import ErrorRender

TYPES = ['int', 'str', 'list[int]', 'dict[str, int]', 'dict[int]', 'list[int, int]', 'list', 'dict', 'tuple[int, str]', 'tuple[int]', 'Foo', 'int[int]', 'None', 'list[Foo]',
	"'int'", 'int | str', 'int | None', 'type[int]', 'dict[str, list[int]]', 'dict[str]', 'Callable[[int]]', 'list[dict[int]]', 'Foo.Bar', 'str.Bar']
EXPRS = ['a', 'a.x', 'a[0]', "a['k']", 'a()', 'a(1)', 'a.items()', 'a.keys()', 'a.append(1)', 'a + 1', "a + 's'", '-a', 'not a', 'a if a else 1', '[a]', '{a: a}', '(a, a)', 'a[0][0]', 'a.x.y', 'a[0].x',
	'len(a)', 'int(a)', 'str(a)', 'a[0:1]', '[x for x in a]', '{k: v for k, v in a}', '{k: v for k, v in a.items()}', 'lambda: a', 'undefined_name', 'a.undefined()', 'self.x', '1', 'None', '[T]', 'a.values()', 'a == a', 'a and 1']
SHAPES = [
	'def f(a: {T}) -> int:\n\tx = {E}\n\treturn 1\n',
	'def f(a: {T}) -> {T}:\n\treturn {E}\n',
	'def f(a: {T}) -> None:\n\tfor i in {E}:\n\t\tprint(i)\n',
	'def f(a: {T}) -> None:\n\tfor k, v in {E}:\n\t\tprint(k)\n',
	'def f(a: {T}) -> None:\n\tx, y = {E}\n\tprint(x)\n',
	'class C:\n\tdef m(self, a: {T}) -> int:\n\t\treturn {E}\n',
	'def f(a: {T}) -> None:\n\tx: {T} = {E}\n\tprint(x.y)\n',
	# one free slot only (the other one is ignored)
	'class C({T}):\n\tpass\n',
	'v: {T} = {{}}\nfor k, v2 in v.items():\n\tprint(k)\n',
	'v: {T} = []\nfor i in v:\n\tprint(i)\n',
	'class C:\n\tx: {T} = 1\n\tdef m(self) -> {T}:\n\t\treturn self.x\n',
	'def f() -> {T}:\n\treturn 1\n\nx = f()\ny = x.z\n',
	'a = 1\nclass C({E}):\n\tpass\n',
	'a = 1\n@{E}\ndef f() -> int:\n\treturn 1\n',
	'a = 1\nx = {E}\n',
	'a: int = 1\nx: int = {E}\ny = x.z\n',
]


def slots(s: int) -> tuple:
	"""(number of type fillings, number of expression fillings) template s really uses"""
	return (len(TYPES) if '{T}' in SHAPES[s] else 1, len(EXPRS) if '{E}' in SHAPES[s] else 1)


def program(s: int, t: int, e: int) -> str:
	return SHAPES[s].format(T=TYPES[t], E=EXPRS[e])


def outcome(source: str) -> str | None:
	"""None when the pipeline succeeds or reports an application error that renders; else what escaped"""
	try:
		driver.transpile(source)
		cover('accepted')
		return None
	except Errors.Error as e:
		cover('syntax_error' if isinstance(e, Errors.Syntax) else 'tranp_error')
		try:
			text = ErrorRender(e).render()
		except Exception as e2:  # noqa: BLE001
			return f'rendering {type(e).__name__} fails with {type(e2).__name__}: {str(e2)[:160]}'
		if not isinstance(text, str) or type(e).__name__ not in text:
			return f'rendering {type(e).__name__} gives {text[-80:]!r}'
		return None
	except Exception as e:  # noqa: BLE001
		import traceback
		tb = traceback.extract_tb(e.__traceback__)[-1]
		return f'{type(e).__name__} escapes ({tb.filename.split("/")[-1]}:{tb.lineno} {tb.name}): {str(e)[:120]}'


def illtyped_law(t: int, e: int) -> bool:
	"""
	pre: 0 <= t and 0 <= e
	post: _
	"""
	s = CASE['s']
	nt, ne = slots(s)
	if t >= nt or e >= ne:
		return True
	t, e = decode_bits(t, nt), decode_bits(e, ne)
	return ok(natively(outcome, program(s, t, e)) is None)


# -- token-level mutations --------------------------------------------------------

BASES = [
	'from typing import TypeVar\n\nT = TypeVar("T")\n\nclass A:\n\tn: int = 0\n\n\tdef __init__(self, n: int) -> None:\n\t\tself.n = n\n\n\t@classmethod\n\tdef make(cls, n: int) -> \'A\':\n\t\treturn cls(n)\n\n\tdef add(self, b: int) -> int:\n\t\treturn self.n + b\n\ndef f(a: T) -> T:\n\treturn a\n',
	'def g(xs: list[int], d: dict[str, int]) -> int:\n\tt = 0\n\tfor i, x in enumerate(xs):\n\t\tif x > 0 and i < 3:\n\t\t\tt += x\n\t\telif x == 0:\n\t\t\tcontinue\n\t\telse:\n\t\t\tbreak\n\tfor k, v in d.items():\n\t\tt += v if k else 0\n\twhile t > 10:\n\t\tt -= 1\n\treturn t\n',
	'from enum import Enum\n\nclass E(Enum):\n\tA = 1\n\tB = 2\n\ndef h(e: E, s: str) -> str:\n\ttry:\n\t\tif e == E.A:\n\t\t\traise Exception()\n\t\tys = [c for c in s.split(",")]\n\t\treturn f"{ys[0]}:{len(ys)}"\n\texcept Exception as x:\n\t\treturn (lambda: "")()\n',
]
REPLACEMENTS = ['(', ')', '[', ':', ',', '.', '=', '\n', '\n\t', '\n\t\t\t\t', 'def', '"', ']', '@', 'class', 'return', '1', 'x', "'", '->', '*', 'lambda', 'not', '\\', '#', '{', '}', ' ', '', 'self', 'T']
TOKEN = re.compile(r'\n\t*|[A-Za-z_][A-Za-z_0-9]*|\d+|"[^"\n]*"|\'[^\'\n]*\'|->|[<>=!+\-*/]=|\S| +')
OPS = ['delete', 'duplicate', 'swap', 'replace']


def tokens_of(base: int) -> list:
	return TOKEN.findall(BASES[base])


def mutate(base: int, op: int, i: int, r: int) -> str:
	toks = tokens_of(base)
	if OPS[op] == 'delete':
		toks = toks[:i] + toks[i + 1:]
	elif OPS[op] == 'duplicate':
		toks = toks[:i + 1] + toks[i:]
	elif OPS[op] == 'swap':
		if i + 1 < len(toks):
			toks[i], toks[i + 1] = toks[i + 1], toks[i]
	else:
		toks = toks[:i] + [REPLACEMENTS[r]] + toks[i + 1:]
	return ''.join(toks)


def mutation_law(op: int, i: int, r: int) -> bool:
	"""
	pre: 0 <= op < 4 and 0 <= i and 0 <= r
	post: _
	"""
	base = CASE['base']
	lo, hi = CASE.get('range', [0, 10 ** 6])
	n = len(tokens_of(base))
	if i < lo or i >= min(hi, n):
		return True
	nr = min(CASE.get('pool', len(REPLACEMENTS)), len(REPLACEMENTS))
	op = decode(op, 4)
	if OPS[op] != 'replace':
		if r != 0:
			return True
		r = 0
	elif r >= nr:
		return True
	i = lo + decode_bits(i - lo, min(hi, n) - lo)
	r = decode_bits(r, nr) if OPS[op] == 'replace' else 0
	cover(OPS[op])
	return ok(natively(outcome, mutate(base, op, i, r)) is None)


def illtyped_closed() -> bool:
	"""every (type, expression) filling of template $VERIF_CASE.s whose index is congruent to slice[0] modulo slice[1]"""
	s = CASE['s']
	k, m = CASE.get('slice', [0, 1])
	nt, ne = slots(s)
	del NOTES[:]
	for idx in range(nt * ne):
		if idx % m != k:
			continue
		t, e = idx // ne, idx % ne
		cover('member')
		bad = outcome(program(s, t, e))
		if bad:
			NOTES.append(f'{program(s, t, e)!r}: {bad}')
	return ok(not NOTES)


def mutation_closed() -> bool:
	"""every mutation of base program $VERIF_CASE.base at the token positions $VERIF_CASE.range with the first $VERIF_CASE.pool replacement tokens"""
	base = CASE['base']
	lo, hi = CASE.get('range', [0, 10 ** 6])
	nr = min(CASE.get('pool', len(REPLACEMENTS)), len(REPLACEMENTS))
	n = len(tokens_of(base))
	del NOTES[:]
	seen = set()
	for i in range(lo, min(hi, n)):
		for op in range(len(OPS)):
			for r in (range(nr) if OPS[op] == 'replace' else [0]):
				src = mutate(base, op, i, r)
				if src in seen:
					continue
				seen.add(src)
				cover(OPS[op])
				cover('member')
				bad = outcome(src)
				if bad:
					NOTES.append(f'{OPS[op]} token {i} ({tokens_of(base)[i]!r}{" -> " + repr(REPLACEMENTS[r]) if OPS[op] == "replace" else ""}) of base program {base}: {src!r}: {bad}')
	return ok(not NOTES)


def explain_illtyped(t, e) -> str:
	s = CASE['s']
	src = program(s, t, e)
	return f'{src!r}: {outcome(src)}'


def explain_mutation(op, i, r) -> str:
	src = mutate(CASE['base'], op, i, r)
	return f'{OPS[op]} token {i} ({tokens_of(CASE["base"])[i]!r}{" -> " + repr(REPLACEMENTS[r]) if OPS[op] == "replace" else ""}) of base program {CASE["base"]}: {src!r}: {outcome(src)}'


def bases_closed() -> bool:
	"""the three base programs of the mutation family are accepted (the mutations start from valid programs)"""
	for b in range(len(BASES)):
		try:
			driver.transpile(BASES[b])
			cover('base')
		except Exception as e:  # noqa: BLE001
			NOTES.append(f'base program {b} is not accepted: {type(e).__name__}: {e}')
			return ok(False)
	return ok(True)


NOTES: list = []
EXPLAIN = {'illtyped_law': explain_illtyped, 'mutation_law': explain_mutation, 'bases_closed': lambda: ' ; '.join(NOTES),
	'illtyped_closed': lambda: f'{len(NOTES)} programs: ' + ' ; '.join(NOTES[:4]), 'mutation_closed': lambda: f'{len(NOTES)} programs: ' + ' ; '.join(NOTES[:4])}

from harness.c07_shapes import BASE_TOKENS, SHAPES_N  # noqa: E402
assert SHAPES_N == len(SHAPES) and BASE_TOKENS == [len(tokens_of(b)) for b in range(len(BASES))], 'harness/c07_shapes.py is out of date'


# -- on-disk modules with the cache enabled, deep nesting -------------------------

ONDISK_EXTRA = [
	'def g() -> None:\n\ta, b = 1\n\tprint(a)\n',
	'def g() -> None:\n\tv: bool = lambda x: x\n\tprint(v)\n',
	'x = x\n',
	'a = b\nb = a\n',
	'def g(xs: list[int]) -> None:\n\tfor xs in xs:\n\t\tprint(xs)\n',
	'class A:\n\tdef m(self) -> int:\n\t\treturn self.m\nv = A().m().z\n',
]


def ondisk_outcome(source: str, workdir: str) -> str | None:
	"""the program as module gm.t on a scratch file system, cache enabled (the normal command-line situation): a first run that also
	stores the caches and a second run that finds them"""
	import os
	from harness import c05_pipeline as pl
	src = os.path.join(workdir, 'src')
	pl.write(src, 'gm.t', source, 1_700_000_000.0)
	for attempt in ('cold', 'warm'):
		try:
			pl.run_raising(src, os.path.join(workdir, 'cache'), ['gm.t'])
			cover('accepted')
		except Errors.Error as e:
			cover('tranp_error')
			try:
				text = ErrorRender(e).render()
			except Exception as e2:  # noqa: BLE001
				return f'({attempt} cache) rendering {type(e).__name__} fails with {type(e2).__name__}: {str(e2)[:160]}'
			if type(e).__name__ not in text:
				return f'({attempt} cache) rendering {type(e).__name__} gives {text[-80:]!r}'
		except Exception as e:  # noqa: BLE001
			import traceback
			tb = traceback.extract_tb(e.__traceback__)[-1]
			return f'({attempt} cache) {type(e).__name__} escapes ({tb.filename.split("/")[-1]}:{tb.lineno} {tb.name}): {str(e)[:120]}'
	return None


def ondisk_programs() -> list:
	out = list(ONDISK_EXTRA)
	for s in (0, 3, 4, 6):
		out += [program(s, t, 0) for t in range(len(TYPES))]
		out += [program(s, 0, e) for e in range(len(EXPRS))]
	for s in (8, 9, 10, 11):
		out += [program(s, t, 0) for t in range(len(TYPES))]
	for s in (12, 14, 15):
		out += [program(s, 0, e) for e in range(len(EXPRS))]
	seen = set()
	return [p for p in out if not (p in seen or seen.add(p))]


def ondisk_closed() -> bool:
	import shutil
	import tempfile
	from vlib import prelude
	k, m = CASE.get('slice', [0, 1])
	del NOTES[:]
	for idx, src in enumerate(ondisk_programs()):
		if idx % m != k:
			continue
		cover('member')
		work = tempfile.mkdtemp(prefix='c07d-', dir=prelude.scratch())
		try:
			bad = ondisk_outcome(src, work)
		finally:
			shutil.rmtree(work, ignore_errors=True)
		if bad:
			NOTES.append(f'{src!r} on disk: {bad}')
	return ok(not NOTES)


def deep_programs() -> list:
	out = []
	for n in (50, 900, 1200, 3000):
		out.append((f'list literal nested {n} deep', 'a = ' + '[' * n + '1' + ']' * n + '\n'))
		out.append((f'{n} nested parentheses', 'a = ' + '(' * n + '1' + ')' * n + '\n'))
		out.append((f'sum of {n} terms', 'a = ' + ' + '.join(['1'] * n) + '\n'))
		out.append((f'attribute chain of {n}', 'a = 1\nb = a' + '.x' * n + '\n'))
		out.append((f'{n} unary minus signs', 'a = ' + '- ' * n + '1\n'))
	for n in (20, 90):
		out.append((f'{n} nested if blocks', ''.join('\t' * i + 'if True:\n' for i in range(n)) + '\t' * n + 'pass\n'))
		out.append((f'{n} nested functions', ''.join('\t' * i + f'def f{i}() -> None:\n' for i in range(n)) + '\t' * n + 'pass\n'))
	out.append(('elif chain of 400', 'a = 1\nif a == 0:\n\tpass\n' + ''.join(f'elif a == {i}:\n\tpass\n' for i in range(1, 400))))
	out.append(('call nested 600 deep', 'def f(a: int) -> int:\n\treturn a\nb = ' + 'f(' * 600 + '1' + ')' * 600 + '\n'))
	return out


def deep_closed() -> bool:
	"""deeply nested / very long inputs: the pipeline still returns, with success or an application error that renders"""
	k, m = CASE.get('slice', [0, 1])
	del NOTES[:]
	for idx, (name, src) in enumerate(deep_programs()):
		if idx % m != k:
			continue
		cover('member')
		bad = outcome(src)
		if bad:
			NOTES.append(f'{name}: {bad}')
	return ok(not NOTES)


EXPLAIN['ondisk_closed'] = lambda: f'{len(NOTES)} programs: ' + ' ; '.join(NOTES[:4])
EXPLAIN['deep_closed'] = lambda: f'{len(NOTES)} programs: ' + ' ; '.join(NOTES[:4])


def ondisk_law(i: int) -> bool:
	"""a single member of the on-disk family (recorded witnesses)"""
	import shutil
	import tempfile
	from vlib import prelude
	work = tempfile.mkdtemp(prefix='c07d-', dir=prelude.scratch())
	try:
		return ok(ondisk_outcome(ondisk_programs()[i], work) is None)
	finally:
		shutil.rmtree(work, ignore_errors=True)


def deep_law(i: int) -> bool:
	"""a single member of the deep-nesting family (recorded witnesses)"""
	return ok(outcome(deep_programs()[i][1]) is None)


EXPLAIN['ondisk_law'] = lambda i: repr(ondisk_programs()[i])
EXPLAIN['deep_law'] = lambda i: deep_programs()[i][0]


# -- the interactive loop ---------------------------------------------------------

LOOP_INPUTS = [
	('valid', 'def f(a: int) -> int:\n\treturn a + 1'),
	('valid2', 'class A:\n\tdef m(self) -> int:\n\t\treturn 2'),
	('unparsable', 'def g(:'),
	('unknown-type', 'def g(a: Foo) -> None: ...'),
	('missing-import', 'from c07.no.such.module import X\ndef g(a: X) -> None: ...'),
	('unknown-variable', 'def g(a: int) -> int:\n\treturn b'),
	('self-outside-class', 'def g(self) -> int:\n\treturn 1'),
	('bad-generic', 'def g(a: dict[int]) -> None:\n\tfor k, v in a.items():\n\t\tprint(k)'),
	('bad-base', 'class B([T]):\n\tpass'),
]


def run_loop(sources: list) -> tuple:
	"""Interactive.run over scripted inputs (only the terminal is replaced) -> (escaped exception | None, printed text, unconsumed inputs)"""
	import contextlib
	import io
	import os
	import rogw.tranp.bin.transpile as transpile_bin
	from rogw.tranp.app.app import App
	from rogw.tranp.bin.transpile import Args, TranspileApp
	from rogw.tranp.cache.cache import CacheSetting
	from rogw.tranp.lang.module import to_fullyname
	from rogw.tranp.module.types import ModulePaths
	from vlib import prelude
	inputs = [s.split('\n') for s in sources] + [['exit']]
	definitions = TranspileApp.definitions(Args(['-c', os.path.join(prelude.REPO, 'example/config.yml'), '-it']))
	definitions[to_fullyname(CacheSetting)] = lambda: CacheSetting(basedir=os.path.join(prelude.scratch(), 'cache'))
	definitions[to_fullyname(ModulePaths)] = lambda: ModulePaths([])
	org = transpile_bin.tty
	transpile_bin.tty = lambda prompt='': inputs.pop(0)
	out = io.StringIO()
	escaped = None
	try:
		with contextlib.redirect_stdout(out):
			try:
				App(definitions).run(TranspileApp.run)
			except BaseException as e:  # noqa: BLE001
				escaped = e
	finally:
		transpile_bin.tty = org
	return escaped, out.getvalue(), len(inputs)


def interactive_closed() -> bool:
	"""every history [x, y, valid] over the input pool through the real Interactive.run: nothing escapes, every input is consumed
	(the loop kept running), and the final valid input prints what a fresh loop prints for it"""
	k, m = CASE.get('slice', [0, 1])
	del NOTES[:]
	valid = LOOP_INPUTS[0][1]
	esc, fresh, left = run_loop([valid])
	if esc is not None or left or 'Result:' not in fresh:
		NOTES.append(f'harness problem: a fresh loop does not accept the valid input ({esc!r}, {fresh[-200:]!r})')
		return ok(False)
	want = fresh.split('Result:')[-1]
	idx = 0
	for nx, x in LOOP_INPUTS:
		for ny, y in LOOP_INPUTS:
			idx += 1
			if idx % m != k:
				continue
			cover('member')
			esc, text, left = run_loop([x, y, valid])
			if esc is not None:
				NOTES.append(f'inputs [{nx}, {ny}, valid]: {type(esc).__name__} escapes from Interactive.run with {left} input(s) unread: {str(esc)[:120]}')
			elif left:
				NOTES.append(f'inputs [{nx}, {ny}, valid]: the loop stopped with {left} input(s) unread')
			elif text.split('Result:')[-1] != want:
				NOTES.append(f'inputs [{nx}, {ny}, valid]: the final valid input prints {text.split("===============")[-1][-200:]!r}')
	return ok(not NOTES)


EXPLAIN['interactive_closed'] = lambda: f'{len(NOTES)} histories: ' + ' ; '.join(NOTES[:4])
