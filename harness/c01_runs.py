"""C01 — one run over several modules (closed obligation): the text emitted for a module does not depend on the other modules of the
run. Two modules are built from the same list / class / statement templates (same tree paths, different names and operators), transpiled
in one application with one transpiler object in both orders, and compared with the text each module gets when it is transpiled alone.
"""
from vlib.prelude import cover, ok

from tv import driver, gen

from rogw.tranp.module.modules import Modules
from rogw.tranp.transpiler.types import ITranspiler

NOTES: list = []


def module_source(tag: str, ops: tuple) -> str:
	parts = []
	templates = [(t, gen.LIST_HEAD) for t in gen.LIST_TEMPLATES] + [(t, gen.HEAD) for t in gen.CLASS_TEMPLATES[:6]] + [(t, gen.HEAD) for t in gen.STATEMENT_TEMPLATES[:8]]
	for i, (tmpl, head) in enumerate(templates):
		name = f'{tag}{i}'
		src = tmpl.replace('{h}', head).replace('{n}', name).replace('{N}', name.capitalize())
		for k, v in enumerate(ops):
			src = src.replace('{%d}' % k, v)
		parts.append(src)
	return '\n'.join(parts)


def strip_meta(text: str) -> str:
	return '\n'.join(ln for ln in text.split('\n') if '@tranp.meta' not in ln)


def alone(name: str, source: str) -> str:
	app = driver.make_app({name: source}, [name])
	return strip_meta(app.resolve(ITranspiler).transpile(app.resolve(Modules).load(name).entrypoint))


def runs_closed() -> bool:
	del NOTES[:]
	program = {'c01.ma': module_source('p', ('+', '<', '>', '+')), 'c01.mb': module_source('q', ('-', '>=', '!=', '-'))}
	want = {m: alone(m, src) for m, src in program.items()}
	for order in (['c01.ma', 'c01.mb'], ['c01.mb', 'c01.ma'], ['c01.ma', 'c01.mb', 'c01.ma']):
		app = driver.make_app(program, sorted(program))
		modules, transpiler = app.resolve(Modules), app.resolve(ITranspiler)
		for m in order:
			cover('member')
			got = strip_meta(transpiler.transpile(modules.load(m).entrypoint))
			if got != want[m]:
				a, b = got.split('\n'), want[m].split('\n')
				diff = [(x, y) for x, y in zip(a, b) if x != y][:2]
				NOTES.append(f'modules transpiled in the order {order}: the text of {m} differs from the text it gets alone: {diff!r}')
				break
	return ok(not NOTES)


EXPLAIN = {'runs_closed': lambda: ' ; '.join(NOTES[:3])}
