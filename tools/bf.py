"""Harness debugging aid (NOT a check): concretely enumerates small arguments of a harness function, honouring its `pre:` lines.
usage: .venv/bin/python tools/bf.py <module> <func> '<case json>' <strlen> [int_lo int_hi]
"""
import importlib, inspect, itertools, json, os, sys, collections
os.environ['VERIF_CASE'] = sys.argv[3] if len(sys.argv) > 3 else '{}'
sys.path.insert(0, os.path.dirname(os.path.dirname(os.path.abspath(__file__))))
from vlib import prelude
mod = importlib.import_module(sys.argv[1])
fn = getattr(mod, sys.argv[2])
strlen = int(sys.argv[4]) if len(sys.argv) > 4 else 3
ilo, ihi = (int(sys.argv[5]), int(sys.argv[6])) if len(sys.argv) > 6 else (0, 4)
pres = [l.strip()[4:].strip() for l in (fn.__doc__ or '').split('\n') if l.strip().startswith('pre:')]
sig = inspect.signature(fn)
alpha = getattr(mod, "BF_ALPHA", None) or getattr(mod, "ALPHA", "ab")
def dom(p):
    if p.annotation is str:
        return [''.join(t) for L in range(strlen + 1) for t in itertools.product(alpha, repeat=L)]
    if p.annotation is bool:
        return [False, True]
    return list(range(ilo, ihi + 1))
doms = [dom(p) for p in sig.parameters.values()]
names = list(sig.parameters)
n = 0; bad = []
for vals in itertools.product(*doms):
    env = dict(zip(names, vals))
    try:
        if not all(eval(p, mod.__dict__, env) for p in pres):
            continue
    except Exception as e:
        continue
    n += 1
    try:
        r = fn(*vals)
        if not r:
            ex = getattr(mod, 'EXPLAIN', {}).get(fn.__name__)
            bad.append((vals, ex(*vals) if ex else 'False'))
    except Exception as e:
        bad.append((vals, repr(e)))
print('evaluated', n, 'failing', len(bad), 'cover', dict(prelude.COVER))
for b in bad[:int(os.environ.get('BF_SHOW', '15'))]:
    print(' ', b)
