#!/bin/bash
# runs every registered quick (or thorough) check in sequence against /repo and records exit codes + wall times
cd "$(dirname "$0")/.."
TIER=${1:-quick}
for id in C01 C05 C06 C07 C08 C09 C10 C11 C12 C13 C14 C15 C16 C17 C18 C19; do
  s=$(date +%s)
  ./check $id --tier $TIER > ${LOGDIR:-/tmp}/run_$id.log 2>&1
  rc=$?
  e=$(date +%s)
  echo "$id exit=$rc wall=$((e-s))s $(grep -c '^VIOLATION' ${LOGDIR:-/tmp}/run_$id.log) violations $(grep -c 'inconclusive ' ${LOGDIR:-/tmp}/run_$id.log) inconclusive-lines"
done
