#!/usr/bin/env python3
"""Confirms a seeded change (patch + demo) in a scratch worktree and runs a check against it.

  tools/seedtest.py <PROP> <seed-dir> <name> [--tier quick] [--only OBLIGATIONS] [--keep]

Steps: scratch worktree of /repo HEAD -> demo passes on clean tree -> apply patch -> baseline tests still 334 passed ->
demo fails -> run ./check <PROP> with VERIF_REPO pointing at the patched worktree (evidence redirected to a scratch dir)
-> record /verif/seeded/<PROP>/<name>/{patch.diff, demo.py, notes.md, meta.json} -> remove the worktree.
"""
import argparse, json, os, re, shutil, subprocess, sys, time

VERIF = os.path.dirname(os.path.dirname(os.path.abspath(__file__)))


def sh(cmd, cwd=None, env=None, timeout=3600):
	p = subprocess.run(cmd, shell=True, cwd=cwd, env=env, capture_output=True, text=True, timeout=timeout)
	return p.returncode, p.stdout + p.stderr


def main():
	ap = argparse.ArgumentParser()
	ap.add_argument('prop'); ap.add_argument('seed_dir'); ap.add_argument('name')
	ap.add_argument('--tier', default='quick'); ap.add_argument('--only'); ap.add_argument('--skip-tests', action='store_true')
	a = ap.parse_args()
	wt = f'/tmp/swt/{a.prop}-{a.name}'
	sh(f'git -C /repo worktree remove --force {wt}')
	os.makedirs('/tmp/swt', exist_ok=True)
	rc, out = sh(f'git -C /repo worktree add --detach {wt} HEAD')
	assert rc == 0, out
	meta = {'property': a.prop, 'name': a.name, 'tier': a.tier, 'repo_head': sh('git -C /repo rev-parse --short HEAD')[1].strip()}
	try:
		sd = os.path.basename(os.path.normpath(a.seed_dir))  # demos may address their own directory by name
		shutil.copytree(a.seed_dir, f'{wt}/{sd}')
		rc0, out0 = sh(f'/venv/bin/python {sd}/demo.py', cwd=wt)
		meta['demo_clean_exit'] = rc0
		rc, out = sh(f'git apply {sd}/patch.diff', cwd=wt)
		meta['patch_applies'] = rc == 0
		if rc != 0:
			print('PATCH DOES NOT APPLY', out); meta['note'] = out[-400:]
		else:
			if not a.skip_tests:
				rc, out = sh('/venv/bin/python -m pytest -q -p no:cacheprovider --timeout=900 --continue-on-collection-errors 2>&1 | tail -3', cwd=wt)
				m = re.search(r'(\d+) passed', out)
				meta['tests_passed'] = int(m.group(1)) if m else None
				meta['tests_tail'] = out.strip().splitlines()[-1] if out.strip() else ''
			rc1, out1 = sh(f'/venv/bin/python {sd}/demo.py', cwd=wt)
			meta['demo_patched_exit'] = rc1
			meta['demo_patched_tail'] = out1.strip()[-300:]
			env = dict(os.environ, VERIF_REPO=wt, VERIF_EVIDENCE_DIR=f'/tmp/swt/ev-{a.prop}-{a.name}')
			cmd = f'./check {a.prop} --tier {a.tier}' + (f' --only {a.only}' if a.only else '')
			t0 = time.time()
			rc2, out2 = sh(cmd, cwd=VERIF, env=env, timeout=4 * 3600)
			meta['check_cmd'] = cmd
			meta['check_exit'] = rc2
			meta['check_wall_s'] = round(time.time() - t0)
			viol = [l for l in out2.splitlines() if l.startswith('VIOLATION') or l.startswith('  obligation=')]
			meta['check_violation_lines'] = viol[:6]
			meta['detected'] = rc2 == 1 and any(l.startswith('VIOLATION') for l in viol)
			meta['check_tail'] = out2.strip().splitlines()[-12:]
		dst = os.path.join(VERIF, 'seeded', a.prop, a.name)
		os.makedirs(dst, exist_ok=True)
		for f in ('patch.diff', 'demo.py', 'notes.md'):
			if os.path.exists(os.path.join(a.seed_dir, f)):
				shutil.copy(os.path.join(a.seed_dir, f), dst)
		meta['confirmed'] = bool(meta.get('patch_applies') and meta.get('demo_clean_exit') == 0 and meta.get('demo_patched_exit', 0) != 0 and (a.skip_tests or meta.get('tests_passed') == 334))
		with open(os.path.join(dst, 'meta.json'), 'w') as f:
			json.dump(meta, f, indent=1)
		print(json.dumps({k: meta.get(k) for k in ('name', 'confirmed', 'tests_passed', 'demo_clean_exit', 'demo_patched_exit', 'check_exit', 'detected', 'check_wall_s', 'check_violation_lines')}, indent=1))
	finally:
		sh(f'git -C /repo worktree remove --force {wt}')
		shutil.rmtree(f'/tmp/swt/ev-{a.prop}-{a.name}', ignore_errors=True)


if __name__ == '__main__':
	main()
