"""Front ends of the translation validation: CPython `ast` -> IR and emitted C++ text -> IR (see tv/sem.py for the IR)."""
import ast
import re

from tv.sem import Unsupported

# ---------------------------------------------------------------- Python
PY_BIN = {ast.Add: '+', ast.Sub: '-', ast.Mult: '*', ast.Mod: '%', ast.LShift: '<<', ast.RShift: '>>', ast.BitAnd: '&', ast.BitOr: '|', ast.BitXor: '^'}
PY_CMP = {ast.Lt: '<', ast.LtE: '<=', ast.Gt: '>', ast.GtE: '>=', ast.Eq: '==', ast.NotEq: '!=', ast.Is: '==', ast.IsNot: '!='}  # `is` only between bool-typed operands in the generated programs
PY_UN = {ast.Not: 'not', ast.USub: '-', ast.UAdd: '+', ast.Invert: '~'}


def py_expr(n):
	if isinstance(n, ast.Name):
		return ('var', n.id)
	if isinstance(n, ast.Constant):
		if isinstance(n.value, bool):
			return ('bool', n.value)
		if isinstance(n.value, int):
			return ('int', n.value)
		raise Unsupported('constant')
	if isinstance(n, ast.UnaryOp):
		return ('un', PY_UN[type(n.op)], py_expr(n.operand))
	if isinstance(n, ast.BinOp) and isinstance(n.op, ast.Mult) and isinstance(n.left, ast.List) and len(n.left.elts) == 1:
		return ('listfill', py_expr(n.left.elts[0]), py_expr(n.right))
	if isinstance(n, ast.BinOp):
		if type(n.op) not in PY_BIN:
			raise Unsupported('binary operator')
		return ('bin', PY_BIN[type(n.op)], py_expr(n.left), py_expr(n.right))
	if isinstance(n, ast.Compare) and len(n.ops) == 1 and isinstance(n.ops[0], (ast.In, ast.NotIn)):
		e = ('in', py_expr(n.left), py_expr(n.comparators[0]))
		return e if isinstance(n.ops[0], ast.In) else ('un', 'not', e)
	if isinstance(n, ast.Subscript) and not isinstance(n.slice, ast.Slice):
		return ('index', py_expr(n.value), py_expr(n.slice))
	if isinstance(n, ast.List):
		return ('listlit', [py_expr(x) for x in n.elts])
	if isinstance(n, ast.ListComp) and len(n.generators) == 1 and isinstance(n.generators[0].target, ast.Name) and len(n.generators[0].ifs) <= 1 and not n.generators[0].is_async:
		g = n.generators[0]
		if isinstance(g.iter, ast.Call) and isinstance(g.iter.func, ast.Name) and g.iter.func.id == 'range':
			return ('rangecomp', py_expr(n.elt), g.target.id, [py_expr(a) for a in g.iter.args], py_expr(g.ifs[0]) if g.ifs else None)
		return ('listcomp', py_expr(n.elt), g.target.id, py_expr(g.iter), py_expr(g.ifs[0]) if g.ifs else None)
	if isinstance(n, ast.Compare):
		items = [py_expr(n.left)]
		for op, c in zip(n.ops, n.comparators):
			if type(op) not in PY_CMP:
				raise Unsupported('comparison operator')
			items += [PY_CMP[type(op)], py_expr(c)]
		return ('cmpchain', items)
	if isinstance(n, ast.BoolOp):
		return ('and' if isinstance(n.op, ast.And) else 'or', [py_expr(v) for v in n.values])
	if isinstance(n, ast.IfExp):
		return ('ifexp', py_expr(n.test), py_expr(n.body), py_expr(n.orelse))
	if isinstance(n, ast.Call) and isinstance(n.func, ast.Name) and not n.keywords:
		return ('call', n.func.id, [py_expr(a) for a in n.args])
	if isinstance(n, ast.Call) and isinstance(n.func, ast.Attribute) and not n.keywords:
		if isinstance(n.func.value, ast.Call) and isinstance(n.func.value.func, ast.Name) and n.func.value.func.id == 'super':
			return ('supercall', n.func.attr, [py_expr(a) for a in n.args])
		return ('mcall', py_expr(n.func.value), n.func.attr, [py_expr(a) for a in n.args])
	if isinstance(n, ast.Attribute):
		return ('attr', py_expr(n.value), n.attr)
	raise Unsupported(f'python expression {type(n).__name__}')


def py_block(stmts) -> list:
	out = []
	for s in stmts:
		if isinstance(s, ast.Assign) and len(s.targets) == 1 and isinstance(s.targets[0], ast.Name):
			out.append(('assign', s.targets[0].id, py_expr(s.value)))
		elif isinstance(s, ast.Assign) and len(s.targets) == 1 and isinstance(s.targets[0], ast.Tuple) and all(isinstance(x, ast.Name) for x in s.targets[0].elts) \
				and isinstance(s.value, ast.Tuple) and len(s.value.elts) == len(s.targets[0].elts):
			# the right-hand side is evaluated completely before any name is bound
			out.append(('multi', [x.id for x in s.targets[0].elts], [py_expr(v) for v in s.value.elts]))
		elif isinstance(s, ast.AnnAssign) and isinstance(s.target, ast.Name) and s.value is not None:
			out.append(('assign', s.target.id, py_expr(s.value)))
		elif isinstance(s, ast.AugAssign) and isinstance(s.target, ast.Name) and type(s.op) in PY_BIN:
			out.append(('aug', PY_BIN[type(s.op)], s.target.id, py_expr(s.value)))
		elif isinstance(s, ast.If):
			out.append(('if', py_expr(s.test), py_block(s.body), py_block(s.orelse)))
		elif isinstance(s, ast.While) and not s.orelse:
			out.append(('while', py_expr(s.test), py_block(s.body)))
		elif isinstance(s, ast.For) and not s.orelse and isinstance(s.target, ast.Name) and isinstance(s.iter, ast.Call) and isinstance(s.iter.func, ast.Name) and s.iter.func.id == 'range':
			a = [py_expr(x) for x in s.iter.args]
			start, stop, step = (('int', 0), a[0], ('int', 1)) if len(a) == 1 else (a[0], a[1], ('int', 1)) if len(a) == 2 else (a[0], a[1], a[2])
			# Python: ascending ranges run while i < stop, descending ones while i > stop (a zero step raises: excluded by premise)
			var = ('var', s.target.id)
			cond = ('bin', '<', var, stop) if len(a) < 3 else ('rangecond', var, stop, step)
			out.append(('for', s.target.id, start, cond, ('aug', '+', s.target.id, step), py_block(s.body)))
		elif isinstance(s, ast.For) and not s.orelse and isinstance(s.target, ast.Name):
			out.append(('foreach', s.target.id, py_expr(s.iter), py_block(s.body), None))
		elif isinstance(s, ast.For) and not s.orelse and isinstance(s.target, ast.Tuple) and len(s.target.elts) == 2 and all(isinstance(x, ast.Name) for x in s.target.elts) \
				and isinstance(s.iter, ast.Call) and isinstance(s.iter.func, ast.Name) and s.iter.func.id == 'enumerate' and len(s.iter.args) == 1:
			out.append(('foreach', s.target.elts[1].id, py_expr(s.iter.args[0]), py_block(s.body), s.target.elts[0].id))
		elif isinstance(s, ast.Expr) and isinstance(s.value, ast.Call) and isinstance(s.value.func, ast.Attribute) and s.value.func.attr == 'append' and isinstance(s.value.func.value, ast.Name) and len(s.value.args) == 1:
			out.append(('append', s.value.func.value.id, py_expr(s.value.args[0])))
		elif isinstance(s, ast.Assign) and len(s.targets) == 1 and isinstance(s.targets[0], ast.Subscript) and isinstance(s.targets[0].value, ast.Name) and not isinstance(s.targets[0].slice, ast.Slice):
			out.append(('setitem', s.targets[0].value.id, py_expr(s.targets[0].slice), py_expr(s.value)))
		elif isinstance(s, (ast.Assign, ast.AnnAssign)) and isinstance((s.targets[0] if isinstance(s, ast.Assign) else s.target), ast.Attribute) \
				and isinstance((s.targets[0] if isinstance(s, ast.Assign) else s.target).value, ast.Name) and s.value is not None:
			tgt = s.targets[0] if isinstance(s, ast.Assign) else s.target
			out.append(('setattr', tgt.value.id, tgt.attr, py_expr(s.value)))
		elif isinstance(s, ast.AugAssign) and isinstance(s.target, ast.Attribute) and isinstance(s.target.value, ast.Name) and type(s.op) in PY_BIN:
			out.append(('setattr', s.target.value.id, s.target.attr, ('bin', PY_BIN[type(s.op)], ('attr', ('var', s.target.value.id), s.target.attr), py_expr(s.value))))
		elif isinstance(s, ast.Expr) and isinstance(s.value, ast.Call) and isinstance(s.value.func, ast.Attribute) and not s.value.keywords \
				and (isinstance(s.value.func.value, ast.Name) or (isinstance(s.value.func.value, ast.Call) and isinstance(s.value.func.value.func, ast.Name) and s.value.func.value.func.id == 'super')):
			call = py_expr(s.value)
			out.append(('mstmt', call))
		elif isinstance(s, ast.Return):
			out.append(('return', py_expr(s.value) if s.value is not None else None))
		elif isinstance(s, ast.Break):
			out.append(('break',))
		elif isinstance(s, ast.Continue):
			out.append(('continue',))
		elif isinstance(s, ast.Raise):
			out.append(('raise',))
		elif isinstance(s, ast.Try) and len(s.handlers) == 1 and not s.orelse and not s.finalbody and isinstance(s.handlers[0].type, ast.Name) and s.handlers[0].type.id == 'Exception':
			out.append(('try', py_block(s.body), py_block(s.handlers[0].body)))
		elif isinstance(s, ast.Pass):
			pass
		elif isinstance(s, ast.Expr):
			out.append(('expr', py_expr(s.value)))
		else:
			raise Unsupported(f'python statement {type(s).__name__}')
	return out


def _py_function(fn: ast.FunctionDef, skip_self: bool = False) -> tuple:
	a = fn.args
	args = a.args[1:] if skip_self else a.args
	defaults = [None] * (len(args) - len(a.defaults)) + [py_expr(d) for d in a.defaults]
	params = [(p.arg, ast.unparse(p.annotation), d) for p, d in zip(args, defaults)]
	return (params, py_block(fn.body), ast.unparse(fn.returns) if fn.returns else None)


def py_classes(source: str) -> dict:
	"""{class name: {'base': name | None, 'fields': [names in declaration order], 'methods': {name: (params, body, return type)}}}"""
	out = {}
	for cl in ast.parse(source).body:
		if not isinstance(cl, ast.ClassDef) or (cl.bases and isinstance(cl.bases[0], ast.Name) and cl.bases[0].id == 'Enum'):
			continue
		base = cl.bases[0].id if cl.bases and isinstance(cl.bases[0], ast.Name) else None
		fields = [st.target.id for st in cl.body if isinstance(st, ast.AnnAssign) and isinstance(st.target, ast.Name)]
		methods = {st.name: _py_function(st, skip_self=True) for st in cl.body if isinstance(st, ast.FunctionDef)}
		deco = lambda st: [ast.unparse(d) for d in st.decorator_list]  # noqa: E731
		static = {st.name for st in cl.body if isinstance(st, ast.FunctionDef) and 'classmethod' in deco(st)}
		props = {st.name for st in cl.body if isinstance(st, ast.FunctionDef) and 'property' in deco(st)}
		out[cl.name] = {'base': base, 'fields': fields, 'methods': methods, 'inits': None, 'super_args': None, 'static': static, 'props': props}
	return out


def py_enums(source: str) -> dict:
	"""{enum name: {member: int value}} for classes deriving from Enum with int literal members"""
	out = {}
	for cl in ast.parse(source).body:
		if isinstance(cl, ast.ClassDef) and cl.bases and isinstance(cl.bases[0], ast.Name) and cl.bases[0].id == 'Enum':
			members = {}
			for st in cl.body:
				if isinstance(st, ast.Assign) and len(st.targets) == 1 and isinstance(st.targets[0], ast.Name) and isinstance(st.value, ast.Constant) and isinstance(st.value.value, int):
					members[st.targets[0].id] = st.value.value
			out[cl.name] = members
	return out


ENUM_HEAD = re.compile(r'^enum class ([A-Za-z_]\w*) \{\s*$')
ENUM_MEMBER = re.compile(r'^\t([A-Za-z_]\w*) = (-?\d+),\s*$')


def cpp_enums(text: str) -> dict:
	out = {}
	lines = text.split('\n')
	i = 0
	while i < len(lines):
		m = ENUM_HEAD.match(lines[i])
		if m:
			members = {}
			j = i + 1
			while j < len(lines) and lines[j] != '};':
				mm = ENUM_MEMBER.match(lines[j])
				if mm:
					members[mm.group(1)] = int(mm.group(2))
				j += 1
			out[m.group(1)] = members
			CLASS_NAMES.add(m.group(1))
			i = j
		i += 1
	return out


def py_functions(source: str) -> dict:
	out = {}
	for fn in ast.parse(source).body:
		if not isinstance(fn, ast.FunctionDef):
			continue
		a = fn.args
		defaults = [None] * (len(a.args) - len(a.defaults)) + [py_expr(d) for d in a.defaults]
		params = [(p.arg, ast.unparse(p.annotation), d) for p, d in zip(a.args, defaults)]
		out[fn.name] = (params, py_block(fn.body), ast.unparse(fn.returns) if fn.returns else None)
	return out


# ---------------------------------------------------------------- C++ (the subset tranp emits for scalar code)
CPP_PREC = {'||': 1, '&&': 2, '|': 3, '^': 4, '&': 5, '==': 6, '!=': 6, '<': 7, '>': 7, '<=': 7, '>=': 7, '<<': 8, '>>': 8, '+': 9, '-': 9, '*': 10, '/': 10, '%': 10}
TOKEN = re.compile(r'\s*(\d+|[A-Za-z_][\w:]*|\|\||&&|==|!=|<=|>=|<<=|>>=|<<|>>|\+\+|--|->|\+=|-=|\*=|/=|%=|&=|\|=|\^=|[-+*/%&|^!~<>()?:;,={}\[\].])')


def tokens(text: str) -> list:
	out = []
	i = 0
	text = text.rstrip()
	while i < len(text):
		m = TOKEN.match(text, i)
		if not m:
			if text[i:].strip() == '':
				break
			raise Unsupported(f'C++ token at {text[i:i + 20]!r}')
		out.append(m.group(1))
		i = m.end()
	return out


class CppParser:
	def __init__(self, toks: list) -> None:
		self.t = toks
		self.i = 0

	def peek(self, k: int = 0):
		return self.t[self.i + k] if self.i + k < len(self.t) else None

	def eat(self, want=None):
		x = self.peek()
		if x is None or (want is not None and x != want):
			raise Unsupported(f'C++ parse: expected {want!r}, found {x!r}')
		self.i += 1
		return x

	# expressions with the C++ precedence table
	def expr(self):
		c = self.binary(1)
		if self.peek() == '?':
			self.eat()
			a = self.expr()
			self.eat(':')
			b = self.expr()
			return ('ifexp', c, a, b)
		return c

	def binary(self, minp: int):
		left = self.unary()
		while self.peek() in CPP_PREC and CPP_PREC[self.peek()] >= minp:
			op = self.eat()
			right = self.binary(CPP_PREC[op] + 1)
			if op == '||':
				left = ('or', [left, right])
			elif op == '&&':
				left = ('and', [left, right])
			elif op == '/':
				raise Unsupported('division')
			else:
				left = ('bin', op, left, right)
		return left

	def unary(self):
		t = self.peek()
		if t == '!':
			self.eat()
			return ('un', 'not', self.unary())
		if t in ('-', '+', '~'):
			self.eat()
			return ('un', t, self.unary())
		if t == 'static_cast':
			self.eat()
			self.eat('<')
			typ = self.eat()
			self.eat('>')
			self.eat('(')
			e = self.expr()
			self.eat(')')
			if typ not in ('int', 'bool'):
				raise Unsupported(f'static_cast<{typ}>')
			return ('call', typ, [e])
		if t in ('int', 'bool') and self.peek(1) == '(':
			self.eat()
			self.eat('(')
			e = self.expr()
			self.eat(')')
			return ('call', t, [e])
		if t == '(':
			self.eat()
			e = self.expr()
			self.eat(')')
			return self.postfix(e)
		if t == '[' and self.peek(1) == '&' and self.peek(2) == ']':
			# immediately invoked lambda: [&]() -> T { ... }()
			self.eat(); self.eat(); self.eat()
			self.eat('(')
			self.eat(')')
			self.eat('->')
			self.type()
			body = self.block()
			self.eat('(')
			self.eat(')')
			return ('iife', body)
		if t == 'std::vector' and self.peek(1) == '<':
			# std::vector<int>(count, value)
			self.type()
			self.eat('(')
			count = self.expr()
			self.eat(',')
			value = self.expr()
			self.eat(')')
			return ('listfill', value, count)
		if t == 'std::find':
			# (std::find(X.begin(), X.end(), e) != X.end()) -> e in X
			self.eat()
			self.eat('(')
			x = self.eat()
			for w in ('.', 'begin', '(', ')', ',', x, '.', 'end', '(', ')', ','):
				self.eat(w)
			e = self.expr()
			self.eat(')')
			op = self.eat()
			if op not in ('!=', '=='):
				raise Unsupported('std::find comparison')
			for w in (x, '.', 'end', '(', ')'):
				self.eat(w)
			inside = ('in', e, ('var', x))
			return inside if op == '!=' else ('un', 'not', inside)
		self.eat()
		if t is None:
			raise Unsupported('C++ parse: unexpected end')
		if t.isdigit():
			return ('int', int(t))
		if t == 'true':
			return ('bool', True)
		if t == 'false':
			return ('bool', False)
		if t in ('std::abs', 'std::min', 'std::max'):
			t = t[5:]
		if re.fullmatch(r'[A-Za-z_]\w*::[A-Za-z_]\w*', t) and t.split('::')[0] in CLASS_NAMES and self.peek() == '(':
			self.eat()
			args = []
			while self.peek() != ')':
				args.append(self.expr())
				if self.peek() == ',':
					self.eat()
			self.eat(')')
			return self.postfix(('scall', t.split('::')[0], t.split('::')[1], args))
		if re.fullmatch(r'[A-Za-z_]\w*::[A-Za-z_]\w*', t) and self.peek() != '(':
			return ('enum', t.split('::')[0], t.split('::')[1])
		if not re.fullmatch(r'[A-Za-z_]\w*', t):
			raise Unsupported(f'C++ operand {t!r}')
		if self.peek() == '(':
			self.eat()
			args = []
			while self.peek() != ')':
				args.append(self.expr())
				if self.peek() == ',':
					self.eat()
			self.eat(')')
			return self.postfix(('call', t, args))
		return self.postfix(('var', t))

	def postfix(self, e):
		while True:
			if self.peek() == '[':
				self.eat()
				i = self.expr()
				self.eat(']')
				e = ('index', e, i)
			elif self.peek() == '.' and self.peek(1) == 'size' and self.peek(2) == '(':
				for w in ('.', 'size', '(', ')'):
					self.eat(w)
				e = ('len', e)
			elif self.peek() in ('.', '->') and re.fullmatch(r'[A-Za-z_]\w*', self.peek(1) or ''):
				self.eat()
				name = self.eat()
				if self.peek() == '(':
					self.eat()
					args = []
					while self.peek() != ')':
						args.append(self.expr())
						if self.peek() == ',':
							self.eat()
					self.eat(')')
					e = ('mcall', e, name, args)
				else:
					e = ('attr', e, name)
			else:
				return e

	def type(self) -> str:
		"""int | bool | auto | std::vector<int>, with optional const / & decoration"""
		if self.peek() == 'const':
			self.eat()
		t = self.eat()
		if t == 'std::vector':
			self.eat('<')
			inner = self.eat()
			self.eat('>')
			if inner != 'int':
				raise Unsupported(f'std::vector<{inner}>')
			t = 'list'
		elif t not in ('int', 'bool', 'auto'):
			raise Unsupported(f'type {t}')
		if self.peek() == '&':
			self.eat()
		return t

	def init_list(self):
		"""{ {e}, {e}, } or { e, e } or {}"""
		self.eat('{')
		items = []
		while self.peek() != '}':
			if self.peek() == '{':
				self.eat()
				items.append(self.expr())
				self.eat('}')
			else:
				items.append(self.expr())
			if self.peek() == ',':
				self.eat()
		self.eat('}')
		return ('listlit', items)

	# statements
	def block(self) -> list:
		self.eat('{')
		out = []
		while self.peek() != '}':
			out.append(self.statement())
		self.eat('}')
		return out

	def statement(self):
		t = self.peek()
		if t == 'auto' and self.peek(1) == '[':
			self.eat(); self.eat('[')
			names = []
			while self.peek() != ']':
				names.append(self.eat())
				if self.peek() == ',':
					self.eat()
			self.eat(']')
			self.eat('=')
			if self.eat() != 'std::tuple':
				raise Unsupported('structured binding from something that is not a tuple literal')
			self.eat('<')
			types = []
			while self.peek() != '>':
				types.append(self.eat())
				if self.peek() == ',':
					self.eat()
			self.eat('>')
			values = self.init_list()[1]
			self.eat(';')
			if len(values) != len(names) or len(types) != len(names):
				raise Unsupported('structured binding arity')
			return ('multi', names, values, types)
		if t == 'if':
			self.eat()
			self.eat('(')
			c = self.expr()
			self.eat(')')
			then = self.block()
			orelse = []
			if self.peek() == 'else':
				self.eat()
				orelse = [self.statement()] if self.peek() == 'if' else self.block()
			return ('if', c, then, orelse)
		if t == 'while':
			self.eat()
			self.eat('(')
			c = self.expr()
			self.eat(')')
			return ('while', c, self.block())
		if t == 'for':
			# for (auto& x : xs) { ... }
			if self.peek(2) == 'auto' and self.peek(3) == '&' and self.peek(5) == ':':
				self.eat(); self.eat('('); self.eat('auto'); self.eat('&')
				name = self.eat()
				self.eat(':')
				it = self.expr()
				self.eat(')')
				return ('foreach', name, it, self.block(), None)
			# for (auto i = A; i < B; i += K) { ... }
			self.eat()
			self.eat('(')
			self.eat('auto')
			name = self.eat()
			self.eat('=')
			start = self.expr()
			self.eat(';')
			cond = self.expr()
			while self.peek() == ',':
				# C++ comma operator: the left operand is evaluated and discarded
				self.eat()
				cond = ('comma', cond, self.expr())
			self.eat(';')
			if self.eat() != name:
				raise Unsupported('for increment')
			op = self.eat()
			if op in ('++', '--'):
				step = ('aug', op[0], name, ('int', 1))
			elif op in ('+=', '-='):
				step = ('aug', op[:-1], name, self.expr())
			else:
				raise Unsupported('for increment operator')
			self.eat(')')
			return ('for', name, start, cond, step, self.block())
		if t == 'return':
			self.eat()
			e = None if self.peek() == ';' else self.expr()
			self.eat(';')
			return ('return', e)
		if t == 'break':
			self.eat()
			self.eat(';')
			return ('break',)
		if t == 'continue':
			self.eat()
			self.eat(';')
			return ('continue',)
		if t == 'try':
			self.eat()
			body = self.block()
			self.eat('catch')
			self.eat('(')
			while self.eat() != ')':
				pass
			return ('try', body, self.block())
		if t == 'throw':
			while self.eat() != ';':
				pass
			return ('raise',)
		if t in CLASS_NAMES and re.fullmatch(r'[A-Za-z_]\w*', self.peek(1) or '') and self.peek(2) == '=':
			cls = self.eat()
			name = self.eat()
			self.eat('=')
			e = self.expr()
			self.eat(';')
			return ('decl', cls, name, e)
		if t in CLASS_NAMES and re.fullmatch(r'[A-Za-z_]\w*', self.peek(1) or '') and self.peek(2) == '{':
			cls = self.eat()
			name = self.eat()
			self.eat('{')
			args = []
			while self.peek() != '}':
				args.append(self.expr())
				if self.peek() == ',':
					self.eat()
			self.eat('}')
			self.eat(';')
			return ('decl', cls, name, ('call', cls, args))
		if (t == 'this' or re.fullmatch(r'[A-Za-z_]\w*', t or '')) and self.peek(1) in ('.', '->') and re.fullmatch(r'[A-Za-z_]\w*', self.peek(2) or '') and (self.peek(3) or '') in ('=', '+=', '-=', '*=', '%=', '&=', '|=', '^=', '<<=', '>>='):
			obj = self.eat()
			self.eat()
			field = self.eat()
			op = self.eat()
			e = self.expr()
			self.eat(';')
			if op != '=':
				e = ('bin', op[:-1], ('attr', ('var', obj), field), e)
			return ('setattr', obj, field, e)
		if t == 'std::vector':
			typ = self.type()
			name = self.eat()
			if self.peek() == ';':
				self.eat()
				return ('decl', typ, name, ('listlit', []))
			if self.peek() == '{':
				e = self.init_list()
				self.eat(';')
				return ('decl', typ, name, e)
			self.eat('=')
			e = self.init_list() if self.peek() == '{' else self.expr()
			self.eat(';')
			return ('decl', typ, name, e)
		if re.fullmatch(r'[A-Za-z_]\w*', t or '') and self.peek(1) == '.' and self.peek(2) == 'push_back':
			name = self.eat()
			for w in ('.', 'push_back', '('):
				self.eat(w)
			e = self.expr()
			self.eat(')')
			self.eat(';')
			return ('append', name, e)
		if re.fullmatch(r'[A-Za-z_]\w*', t or '') and self.peek(1) in ('++', '--') and self.peek(2) == ';':
			name = self.eat()
			op = self.eat()
			self.eat(';')
			return ('aug', op[0], name, ('int', 1))
		if re.fullmatch(r'[A-Za-z_]\w*', t or '') and self.peek(1) == '[':
			save = self.i
			name = self.eat()
			self.eat('[')
			ie = self.expr()
			self.eat(']')
			if self.peek() == '=':
				self.eat()
				e = self.expr()
				self.eat(';')
				return ('setitem', name, ie, e)
			self.i = save
		if t in ('int', 'bool', 'auto') and re.fullmatch(r'[A-Za-z_]\w*', self.peek(1) or '') and self.peek(2) == '=':
			typ = self.eat()
			name = self.eat()
			self.eat('=')
			e = self.expr()
			self.eat(';')
			return ('decl', typ, name, e)
		if re.fullmatch(r'[A-Za-z_]\w*', t or '') and self.peek(1) == '=':
			name = self.eat()
			self.eat('=')
			e = self.expr()
			self.eat(';')
			return ('assign', name, e)
		if re.fullmatch(r'[A-Za-z_]\w*', t or '') and (self.peek(1) or '') in ('+=', '-=', '*=', '%=', '<<=', '>>=', '&=', '|=', '^='):
			name = self.eat()
			op = self.eat()[:-1]
			e = self.expr()
			self.eat(';')
			return ('aug', op, name, e)
		e = self.expr()
		self.eat(';')
		if e[0] == 'mcall':
			return ('mstmt', e)
		return ('expr', e)


CLASS_NAMES: set = set()
CLASS_HEAD = re.compile(r'^class ([A-Za-z_]\w*)(?: : public ([A-Za-z_]\w*))? \{\s*$')
FIELD = re.compile(r'^\t(?:public|protected|private): (int|bool) ([A-Za-z_]\w*);\s*$')
METHOD_HEAD = re.compile(r'^\t(static )?(int|bool|void|[A-Z]\w*)\s+([A-Za-z_]\w*)\((.*?)\)\s*\{\s*$')
CTOR_HEAD = re.compile(r'^\t([A-Za-z_]\w*)\((.*?)\)(?: : (.*?))? \{(\})?\s*$')


def _params(plist: str) -> list:
	params = []
	for p in [x.strip() for x in plist.split(',') if x.strip()]:
		default = None
		if '=' in p:
			p, d = p.split('=', 1)
			default = CppParser(tokens(d)).expr()
		parts = p.replace('&', ' ').split()
		params.append((parts[-1], 'list' if 'std::vector<int>' in parts else parts[-2], default))
	return params


def cpp_classes(text: str) -> dict:
	"""the classes of the emitted translation unit, same layout as py_classes; the constructor is the method '__init__' and carries
	its member initialiser list ('inits': [(field, expr)]) and base constructor arguments ('super_args')"""
	lines = text.split('\n')
	out = {}
	CLASS_NAMES.clear()
	for ln in lines:
		m = CLASS_HEAD.match(ln)
		if m:
			CLASS_NAMES.add(m.group(1))
	i = 0
	while i < len(lines):
		m = CLASS_HEAD.match(lines[i])
		if not m:
			i += 1
			continue
		name, base = m.group(1), m.group(2)
		cls = {'base': base, 'fields': [], 'methods': {}, 'inits': None, 'super_args': None, 'static': set(), 'props': set()}
		j = i + 1
		while j < len(lines) and lines[j] != '};':
			ln = lines[j]
			f = FIELD.match(ln)
			mh = METHOD_HEAD.match(ln)
			ch = CTOR_HEAD.match(ln)
			if f:
				cls['fields'].append(f.group(2))
				j += 1
			elif mh or (ch and ch.group(1) == name):
				k = j + 1
				if ch and not mh and ch.group(4):
					body_text = '{}'
					k = j
				else:
					while k < len(lines) and lines[k] != '\t}':
						k += 1
					body_text = '{' + '\n'.join(lines[j + 1:k]) + '}'
				if mh:
					cls['methods'][mh.group(3)] = (_params(mh.group(4)), CppParser(tokens(body_text)).block(), mh.group(2))
					if mh.group(1):
						cls['static'].add(mh.group(3))
				else:
					inits, super_args = [], None
					if ch.group(3):
						p = CppParser(tokens(ch.group(3)))
						while p.peek() is not None:
							target = p.eat()
							p.eat('(')
							args = []
							while p.peek() != ')':
								args.append(p.expr())
								if p.peek() == ',':
									p.eat()
							p.eat(')')
							if p.peek() == ',':
								p.eat()
							if target == base:
								super_args = args
							else:
								if len(args) != 1:
									raise Unsupported('member initialiser with several arguments')
								inits.append((target, args[0]))
					cls['methods']['__init__'] = (_params(ch.group(2)), CppParser(tokens(body_text)).block(), None)
					cls['inits'], cls['super_args'] = inits, super_args
				j = k + 1
			else:
				j += 1
		out[name] = cls
		i = j + 1
	return out


FUNC_HEAD = re.compile(r'^(int|bool|void|std::vector<int>|[A-Z]\w*)\s+([A-Za-z_]\w*)\((.*?)\)\s*\{\s*$')


def cpp_functions(text: str) -> dict:
	"""the emitted translation unit -> {name: (params, body IR, return type)}; top-level functions only"""
	lines = text.split('\n')
	out = {}
	i = 0
	while i < len(lines):
		m = FUNC_HEAD.match(lines[i])
		if not m:
			i += 1
			continue
		rtype, name, plist = m.group(1), m.group(2), m.group(3)
		j = i + 1
		while j < len(lines) and lines[j] != '}':
			j += 1
		body_text = '{' + '\n'.join(lines[i + 1:j]) + '}'
		params = _params(plist)
		body = CppParser(tokens(body_text)).block()
		out[name] = (params, body, rtype)
		i = j + 1
	return out
