"""In-memory transpile driver: the complete real pipeline (Modules.load -> Py2Cpp.transpile), nothing modelled.
Recipe from the project's own test fixtures / bin/transpile.py; caches go to a scratch directory."""
import os

from vlib import prelude  # noqa: F401  (sys.path, cwd=/repo, typing.TypeIs shim)

from rogw.tranp.app.app import App
from rogw.tranp.app.dir import tranp_dir
from rogw.tranp.cache.cache import CacheSetting
from rogw.tranp.data.meta.types import ModuleMetaFactory
from rogw.tranp.i18n.i18n import I18n, TranslationMapping
from rogw.tranp.implements.cpp.providers.i18n import translation_mapping_cpp
from rogw.tranp.implements.cpp.providers.view import renderer_helper_provider_cpp
from rogw.tranp.implements.cpp.transpiler.py2cpp import Py2Cpp
from rogw.tranp.lang.locator import Invoker
from rogw.tranp.lang.middleware import Middleware
from rogw.tranp.lang.module import to_fullyname
from rogw.tranp.module.modules import Modules
from rogw.tranp.module.types import ModulePath, ModulePaths
from rogw.tranp.providers.syntax.ast import source_provider
from rogw.tranp.syntax.ast.parser import SourceProvider
from rogw.tranp.transpiler.types import ITranspiler, TranspilerOptions
from rogw.tranp.view.render import Renderer, RendererEmitter, RendererHelperProvider, RendererSetting

_SRC = {'code': ''}


def _renderer_setting(i18n: I18n, emitter: RendererEmitter) -> RendererSetting:
	return RendererSetting([os.path.join(tranp_dir(), 'data/cpp/template')], i18n.t, emitter, {'immutable_param_types': ['std::string', 'std::vector', 'std::map', 'std::function']})


def _app() -> App:
	return make_app(None, ['__main__'])


def make_app(program: dict | None, module_names: list) -> App:
	"""program: {module path: source} for modules that exist only in memory (None = the single module __main__ from _SRC)"""
	holder: dict = {}

	def sp(module_path: str) -> str:
		if program is not None and module_path in program:
			return program[module_path]
		if program is None and module_path == '__main__':
			return _SRC['code']
		return holder['app'].resolve(Invoker)(source_provider)(module_path)

	app = App({
		to_fullyname(ModulePaths): lambda: ModulePaths([ModulePath(name, language='py') for name in module_names]),
		to_fullyname(SourceProvider): lambda: sp,
		to_fullyname(ITranspiler): Py2Cpp,
		to_fullyname(Renderer): Renderer,
		to_fullyname(RendererEmitter): Middleware,
		to_fullyname(RendererHelperProvider): renderer_helper_provider_cpp,
		to_fullyname(RendererSetting): _renderer_setting,
		to_fullyname(TranslationMapping): translation_mapping_cpp,
		to_fullyname(TranspilerOptions): lambda: TranspilerOptions(verbose=False, env={}),
		to_fullyname(ModuleMetaFactory): lambda: (lambda module_path: {'hash': 'dummy', 'path': module_path}),
		to_fullyname(CacheSetting): lambda: CacheSetting(basedir=os.path.join(prelude.scratch(), 'cache'), enabled=True),
	})
	holder['app'] = app
	return app


def transpile(code: str) -> str:
	app = _app()
	_SRC['code'] = code if code.endswith('\n') else code + '\n'
	modules = app.resolve(Modules)
	module = modules.load('__main__')
	return app.resolve(ITranspiler).transpile(module.entrypoint)
