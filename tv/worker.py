"""One batch of the C01 translation validation (see checks/c01.py).

  worker.py <tier> <seed> <batch> <n_batches>     -> RESULT {json}
  worker.py replay <file>
"""
import ast
import json
import os
import subprocess
import sys
import time
import traceback

sys.path.insert(0, os.path.dirname(os.path.dirname(os.path.abspath(__file__))))
from vlib import prelude  # noqa: E402

import z3  # noqa: E402

from tv import driver, fronts, gen, sem  # noqa: E402

UNROLL = 6
KNOWN = prelude.known_classes('C01')
LO, HI = -(1 << 15), 1 << 15
LIST_MAX = 3


def inputs_for(params: list):
	inputs = {}
	cons = []
	for pn, pt, _ in params:
		if pt == 'bool':
			inputs[pn] = ('bool', z3.Bool(pn))
		elif pt == 'list[int]':
			# a list of at most LIST_MAX ints (the model's capacity sem.CAP leaves room for one append)
			n = z3.BitVec(pn + '_n', sem.W)
			elems = [z3.BitVec(f'{pn}_{k}', sem.W) for k in range(sem.CAP)]
			inputs[pn] = ('list', (n, elems))
			cons.append(z3.And(n >= sem.bv(0), n <= sem.bv(LIST_MAX)))
			cons.extend(z3.And(x >= sem.bv(LO), x < sem.bv(HI)) for x in elems)
		else:
			v = z3.BitVec(pn, sem.W)
			inputs[pn] = ('int', v)
			cons.append(z3.And(v >= sem.bv(LO), v < sem.bv(HI)))
	return inputs, cons


def model_args(model, params: list) -> list:
	out = []
	for pn, pt, _ in params:
		if pt == 'bool':
			out.append(bool(z3.is_true(model.eval(z3.Bool(pn), model_completion=True))))
		elif pt == 'list[int]':
			n = model.eval(z3.BitVec(pn + '_n', sem.W), model_completion=True).as_signed_long()
			out.append([model.eval(z3.BitVec(f'{pn}_{k}', sem.W), model_completion=True).as_signed_long() for k in range(n)])
		else:
			out.append(model.eval(z3.BitVec(pn, sem.W), model_completion=True).as_signed_long())
	return out


def run_python(source: str, name: str, args: list):
	ns: dict = {}
	exec(source, ns)
	try:
		r = ns[name](*[list(a) if isinstance(a, list) else a for a in args])
		return int(r)
	except Exception:  # noqa: BLE001
		return 'EXC'


def needed_text(cpp_text: str, names: list) -> str:
	"""the emitted text of the called functions and of their `<name>_h` helpers, in emission order"""
	keep = set()
	for n in names:
		keep.add(n)
		keep.add(n + '_h')
	out = []
	# the classes a function uses are named after it (<Name>K, <Name>L ...): emitted ahead of the functions
	lines = cpp_text.split('\n')
	i = 0
	while i < len(lines):
		m = fronts.CLASS_HEAD.match(lines[i]) or fronts.ENUM_HEAD.match(lines[i])
		if m and any(m.group(1).lower().startswith(n.lower()) for n in names):
			j = i
			while j < len(lines) and lines[j] != '};':
				j += 1
			out.extend(lines[i:j + 1])
			i = j
		i += 1
	for fn in _all_function_names(cpp_text):
		if fn in keep or any(fn.startswith(n + '_') for n in names):
			out.extend(_function_text(cpp_text, fn))
	return '\n'.join(out)


def _all_function_names(text: str) -> list:
	out = []
	for ln in text.split('\n'):
		m = fronts.FUNC_HEAD.match(ln)
		if m:
			out.append(m.group(2))
	return out


def compiles(cpp_text: str, name: str) -> str:
	"""'' when g++ accepts the emitted text of one function (and its helper), else the diagnostic"""
	d = prelude.scratch()
	src = os.path.join(d, f'c{os.getpid()}.cpp')
	with open(src, 'w') as f:
		f.write('#include <exception>\n#include <algorithm>\n#include <cstdlib>\n#include <vector>\n#include <tuple>\n' + needed_text(cpp_text, [name]) + '\n')
	c = subprocess.run(['g++', '-std=c++20', '-fsyntax-only', '-w', src], capture_output=True, text=True)
	return '' if c.returncode == 0 else c.stderr[-400:]


def cpp_arg(x) -> str:
	if isinstance(x, bool):
		return 'true' if x else 'false'
	if isinstance(x, list):
		return 'std::vector<int>{' + ', '.join(str(v) for v in x) + '}'
	return str(x)


def run_cpp(cpp_text: str, calls: list) -> list:
	"""calls: [(name, args)] -> list of results ('EXC', 'CRASH' or int) through g++; one process per call, library assertions on
	(an out-of-bounds operator[] aborts instead of reading foreign memory)"""
	if not calls:
		return []
	d = prelude.scratch()
	main = ['#include <exception>', '#include <algorithm>', '#include <cstdlib>', '#include <vector>', '#include <tuple>', '#include <iostream>', needed_text(cpp_text, [n for n, _ in calls]), 'int main(int argc, char** argv) {', '\tint which = std::atoi(argv[1]);']
	for k, (name, args) in enumerate(calls):
		a = ', '.join(cpp_arg(x) for x in args)
		main.append(f'\tif (which == {k}) {{ try {{ std::cout << (long long)({name}({a})) << "\\n"; }} catch (...) {{ std::cout << "EXC\\n"; }} }}')
	main.append('\treturn 0;\n}')
	src = os.path.join(d, f'm{os.getpid()}.cpp')
	exe = os.path.join(d, f'm{os.getpid()}.out')
	with open(src, 'w') as f:
		f.write('\n'.join(main))
	c = subprocess.run(['g++', '-std=c++20', '-O0', '-w', '-D_GLIBCXX_ASSERTIONS', '-ftrivial-auto-var-init=pattern', '-o', exe, src], capture_output=True, text=True)
	if c.returncode != 0:
		return [f'COMPILE-ERROR: {c.stderr[-300:]}'] * len(calls)
	out = []
	for k in range(len(calls)):
		try:
			r = subprocess.run([exe, str(k)], capture_output=True, text=True, timeout=10)
		except subprocess.TimeoutExpired:
			out.append('TIMEOUT')
			continue
		ln = r.stdout.strip()
		if r.returncode != 0 or ln == '':
			out.append('CRASH')
		else:
			out.append('EXC' if ln == 'EXC' else int(ln))
	return out


def classify(source: str) -> str | None:
	return 'comparison-chain' if gen.has_chain(source) else None


def handle(entries: list) -> dict:
	"""entries: [(name, category, source)]"""
	t_solver = 0.0
	module_src = '\n'.join(src for _, _, src in entries)
	emitted = {}
	rejected = {}
	try:
		cpp_text = driver.transpile(module_src)
		cpp_funcs = None
	except Exception as e:  # noqa: BLE001  one function of the batch is not accepted: transpile them one by one
		cpp_text = None
		for name, cat, src in entries:
			try:
				emitted[name] = driver.transpile(src)
			except Exception as e2:  # noqa: BLE001
				rejected[name] = f'{type(e2).__name__}: {str(e2)[:200]}'
	out = []
	replays = []
	witnesses = []
	not_compiling = {}
	if cpp_text is not None:
		# "the C++ text tranp emits is accepted by a C++20 compiler": one syntax check per batch, culprits located individually
		d = prelude.scratch()
		whole = os.path.join(d, f'b{os.getpid()}.cpp')
		with open(whole, 'w') as f:
			f.write('#include <exception>\n#include <algorithm>\n#include <cstdlib>\n#include <vector>\n#include <tuple>\n' + cpp_text)
		if subprocess.run(['g++', '-std=c++20', '-fsyntax-only', '-w', '-x', 'c++', whole], capture_output=True, text=True).returncode != 0:
			for name, _, _ in entries:
				diag = compiles(cpp_text, name)
				if diag:
					not_compiling[name] = diag
	for name, cat, src in entries:
		rec = {'name': name, 'category': cat, 'source': src}
		out.append(rec)
		if name in rejected:
			rec.update(verdict='rejected', detail=rejected[name])
			continue
		if name in not_compiling:
			rec.update(verdict='compile_error', detail=not_compiling[name], cpp='\n'.join(_function_text(cpp_text, name)))
			continue
		text = cpp_text if cpp_text is not None else emitted[name]
		try:
			cc = fronts.cpp_classes(text)  # first: the statement parser needs the class names
			ce = fronts.cpp_enums(text)
			cf = fronts.cpp_functions(text)
			pf = fronts.py_functions(src if cpp_text is None else module_src)
			pc = fronts.py_classes(src if cpp_text is None else module_src)
			if name not in cf:
				raise sem.Unsupported('function not found in the emitted text')
			rec['cpp'] = '\n'.join(l for l in _function_text(text, name))
			params = pf[name][0]
			inputs, cons = inputs_for(params)
			prem = sem.Premises()
			mp, mc = sem.Machine(pf, 'py', prem, UNROLL, pc), sem.Machine(cf, 'cpp', None, UNROLL, cc)
			mc.source_field_order = {k: list(v['fields']) for k, v in pc.items()}
			mp.enums, mc.enums = fronts.py_enums(src if cpp_text is None else module_src), ce
			rp, vp = mp.run(name, inputs)
			rc, vc = mc.run(name, inputs)
			class_conds: dict = {}
			for m in (mp, mc):
				for cls, conds in m.classes.items():
					class_conds.setdefault(cls, []).extend(conds)
			if vp is None or vc is None:
				raise sem.Unsupported('no return value')
			s = z3.Solver()
			s.set('timeout', 120000)
			s.add(*cons)
			s.add(*prem.items)
			rec['n_premises'] = len(prem.items)
			s.push()
			s.add(z3.Or(rp != rc, z3.And(z3.Not(rp), sem.to_int(vp) != sem.to_int(vc))))
			t0 = time.time()
			r = str(s.check())
			t_solver += time.time() - t0
			rec['verdict'] = r
			if r == 'sat':
				model = s.model()
				rec['class'] = classify(src)
				hit = [cls for cls, conds in sorted(class_conds.items()) if any(z3.is_false(model.eval(c, model_completion=True)) for c in conds)]
				listed = [cls for cls in hit if cls in KNOWN]
				if rec['class'] is None and listed:
					# the difference lies in the trigger region of a listed finding class: is there a difference outside those regions too?
					for cls in sorted(class_conds):
						if cls in KNOWN:
							s.add(*class_conds[cls])
					t0 = time.time()
					r2 = str(s.check())
					t_solver += time.time() - t0
					rec['outside_listed_classes'] = r2
					if r2 == 'unsat':
						rec['class'] = listed[0]
					elif r2 == 'sat':
						model = s.model()
					else:
						rec['verdict'] = r2
				elif rec['class'] is None and hit:
					rec['class'] = hit[0]
				if rec['verdict'] == 'sat':
					args = model_args(model, params)
					rec['model'] = dict(zip([p[0] for p in params], args))
					replays.append((rec, text, name, args, src if cpp_text is None else module_src))
			s.pop()
			if r == 'unsat' and len(witnesses) < 3:
				# encoder validation: a solver-chosen input inside the premises; the z3 C++ evaluator must agree with g++
				t0 = time.time()
				if str(s.check()) == 'sat':
					m = s.model()
					args = model_args(m, params)
					raised = z3.is_true(m.eval(rc, model_completion=True))
					val = 'EXC' if raised else m.eval(sem.to_int(vc), model_completion=True).as_signed_long()
					witnesses.append((name, args, val, text))
				t_solver += time.time() - t0
		except sem.Unsupported as e:
			rec.update(verdict='unsupported', detail=str(e))
		except Exception as e:  # noqa: BLE001
			rec.update(verdict='unsupported', detail=f'{type(e).__name__}: {str(e)[:200]} {traceback.format_exc()[-400:]}')
	# replay the sat models for real (grouped per emitted text)
	by_text: dict = {}
	for rec, text, name, args, py_src in replays:
		by_text.setdefault(text, []).append((rec, name, args, py_src))
	for text, items in by_text.items():
		results = run_cpp(text, [(name, args) for _, name, args, _ in items])
		for (rec, name, args, py_src), cres in zip(items, results):
			pres = run_python(py_src, name, args)
			rec['replayed'] = True
			rec['py_result'] = pres
			rec['cpp_result'] = cres
			rec['reproduced'] = pres != cres and not (isinstance(cres, str) and cres.startswith('COMPILE-ERROR'))
			if isinstance(cres, str) and cres.startswith('COMPILE-ERROR'):
				rec['reproduced'] = True  # "the C++ text tranp emits is accepted by a C++20 compiler"
	mismatches = []
	checked = 0
	by_text = {}
	for name, args, val, text in witnesses:
		by_text.setdefault(text, []).append((name, args, val))
	for text, items in by_text.items():
		results = run_cpp(text, [(n, a) for n, a, _ in items])
		for (n, a, val), cres in zip(items, results):
			checked += 1
			if cres != val:
				mismatches.append(f'{n}{tuple(a)}: z3 C++ evaluator {val!r}, g++ {cres!r}')
	return {'functions': out, 'solver_s': round(t_solver, 2), 'witnesses_checked': checked, 'witness_mismatches': mismatches}


def _function_text(text: str, name: str) -> list:
	lines = text.split('\n')
	for i, ln in enumerate(lines):
		if fronts.FUNC_HEAD.match(ln) and fronts.FUNC_HEAD.match(ln).group(2) == name:
			j = i
			while j < len(lines) and lines[j] != '}':
				j += 1
			return lines[i:j + 1]
	return []


def main() -> None:
	if sys.argv[1] == 'replay':
		with open(sys.argv[2]) as f:
			w = json.load(f)
		text = driver.transpile(w['source'])
		args = [w['model'][p[0]] for p in fronts.py_functions(w['source'])[w['name']][0]]
		cres = run_cpp(text, [(w['name'], args)])[0]
		pres = run_python(w['source'], w['name'], args)
		print(f'python {pres!r} / compiled C++ {cres!r} on {w["model"]}')
		print('REPRODUCED' if pres != cres else 'not reproduced')
		return
	tier, seed, batch, n_batches = sys.argv[1], int(sys.argv[2]), int(sys.argv[3]), int(sys.argv[4])
	programs = gen.programs(tier, seed)
	per = (len(programs) + n_batches - 1) // n_batches
	entries = programs[batch * per:(batch + 1) * per]
	try:
		res = handle(entries)
	except Exception as e:  # noqa: BLE001
		res = {'error': f'{type(e).__name__}: {e} {traceback.format_exc()[-1500:]}'}
	print('RESULT ' + json.dumps(res))


if __name__ == '__main__':
	main()
