"""Shared symbolic semantics for the translation validation of C01 (engine E2).

Both programs - the Python source (through CPython's `ast`) and the emitted C++ text (through tv/cppfront.py) - are lowered to one
small IR and executed symbolically over z3 bit-vectors. Values are (type, term) with type 'int', 'bool', 'size' (C++ std::size_t: same bits,
unsigned comparisons) or 'list' (bounded: a length term and CAP element terms); ints are signed 64-bit
vectors and every arithmetic result is *premised* to fit the C++ `int` (32 bit), so neither side wraps inside the claim.

IR expressions: ('var', n) ('int', k) ('bool', b) ('un', op, e) ('bin', op, l, r) ('cmpchain', [e0, op, e1, op, e2 ...])  (python only)
                ('and', [es]) ('or', [es]) ('ifexp', c, a, b) ('call', f, [args])
                ('index', l, i) ('len', l) ('in', x, l) ('listlit', [es]) ('listcomp', elt, var, iter, cond)  (python only) ('iife', body)  (C++ only)
IR statements:  ('try', body, handler) ('setattr', obj, field, e) ('mstmt', call)
                ('foreach', var, l, body, index var|None) ('append', n, e) ('setitem', n, i, e)
                ('decl', type|None, n, e) ('assign', n, e) ('aug', op, n, e) ('if', c, then, else) ('while', c, body)
                ('for', n, start, cond, step_stmt, body) ('return', e|None) ('break',) ('continue',) ('raise',) ('expr', e)
The two front ends differ only in how they *group* and *type* - which is exactly what the property is about.
"""
import z3

W = 64
INT_MIN, INT_MAX = -(1 << 31), (1 << 31) - 1


def bv(k: int):
	return z3.BitVecVal(k, W)


class Premises:
	"""conditions under which Python and C++ semantics agree by construction (collected on the Python side) + loop unwinding"""

	def __init__(self) -> None:
		self.items: list = []

	def add(self, cond) -> None:
		self.items.append(cond)

	def fits(self, term) -> None:
		self.items.append(z3.And(term >= bv(INT_MIN), term <= bv(INT_MAX)))


class Unsupported(Exception):
	pass


CAP = 4  # capacity of the bounded list model: a list value is ('list', (length term, [CAP element terms]))
_FRESH = [0]


def fresh(tag: str):
	_FRESH[0] += 1
	return z3.BitVec(f'${tag}{_FRESH[0]}', W)


def to_bool(v):
	t, x = v
	if t in ('list', 'obj'):
		raise Unsupported(f'{t} in a boolean context')
	return x if t == 'bool' else x != bv(0)


def to_int(v):
	"""the 64-bit pattern of a scalar ('size' = C++ std::size_t keeps its bits: only comparisons, remainders and shifts read it as unsigned)"""
	t, x = v
	if t in ('list', 'obj'):
		raise Unsupported(f'{t} in an arithmetic context')
	return z3.If(x, bv(1), bv(0)) if t == 'bool' else x


def narrow(x):
	"""conversion of a 64-bit unsigned value to the C++ int: low 32 bits, sign extended"""
	return z3.SignExt(32, z3.Extract(31, 0, x))


def select(elems: list, idx, default):
	out = default
	for k in reversed(range(len(elems))):
		out = z3.If(idx == bv(k), elems[k], out)
	return out


def attrs_read(e) -> set:
	"""names of the members of `this` an expression reads"""
	out = set()
	if isinstance(e, tuple):
		if len(e) == 3 and e[0] == 'attr' and e[1] == ('var', 'this'):
			out.add(e[2])
		for x in e:
			out |= attrs_read(x)
	elif isinstance(e, list):
		for x in e:
			out |= attrs_read(x)
	return out


def flat(stmts: list) -> list:
	out = []
	for st in stmts:
		out.append(st)
		for x in st:
			if isinstance(x, list) and x and isinstance(x[0], tuple):
				out.extend(flat(x))
	return out


class Outcome:
	"""guarded result of running a block: list of (condition, kind, value) with kind in return / raise / fall / break / continue"""


class Machine:
	def __init__(self, functions: dict, lang: str, premises: Premises | None, unroll: int, classes: dict | None = None) -> None:
		self.functions = functions  # name -> (params [(name, type, default_expr|None)], body, return_type)
		self.classes_def = classes or {}  # name -> {'base', 'fields', 'methods', 'inits', 'super_args'}: an object value is ('obj', (class name, {field: value}))
		self.cur_class: list = []  # classes whose method bodies are being executed (C++ resolves this->m() statically)
		self.enums: dict = {}  # enum name -> {member: int}: an enum value is the int of its member (members are distinct ints in the templates)
		self.source_field_order: dict = {}  # C++ machine only: class -> member names in the order of the *Python* class body
		self.lang = lang  # 'py' | 'cpp'
		self.premises = premises  # only the Python run records premises
		self.unroll = unroll
		self.depth = 0
		# conditions that keep an execution out of the trigger region of a *listed* finding class (see tv/worker.py: a difference that
		# disappears under them is attributed to that class, anything that remains is reported)
		self.classes: dict = {}

	def tag(self, cls: str, cond, guard) -> None:
		self.classes.setdefault(cls, []).append(z3.Implies(guard, cond))

	# ---------------------------------------------------------------- expressions
	def arith(self, op: str, l, r, guard):
		a, b = to_int(l), to_int(r)
		if l[0] == 'size' or r[0] == 'size':
			# C++: the other operand is converted to std::size_t; +, -, *, &, |, ^ have the same bits, % is the unsigned remainder
			if op in ('+', '-', '*', '&', '|', '^'):
				res = {'+': a + b, '-': a - b, '*': a * b, '&': a & b, '|': a | b, '^': a ^ b}[op]
			elif op == '%':
				self.tag('len-unsigned', z3.And(a >= bv(0), b >= bv(0)), guard)
				res = z3.URem(a, b)
			else:
				raise Unsupported(f'operator {op} on std::size_t')
			return ('size', res)
		if op == '+':
			res = a + b
		elif op == '-':
			res = a - b
		elif op == '*':
			res = a * b
		elif op == '%':
			# agreement region: dividend >= 0, divisor > 0 (floor and truncating remainder coincide)
			self.premise(z3.And(a >= bv(0), b > bv(0)), guard)
			res = z3.SRem(a, b)
		elif op == '<<':
			self.premise(z3.And(a >= bv(0), b >= bv(0), b < bv(31)), guard)
			res = a << b
		elif op == '>>':
			self.premise(z3.And(a >= bv(0), b >= bv(0), b < bv(31)), guard)
			res = a >> b
		elif op == '&':
			res = a & b
		elif op == '|':
			res = a | b
		elif op == '^':
			res = a ^ b
		else:
			raise Unsupported(f'operator {op}')
		if self.premises is not None:
			self.premise(z3.And(res >= bv(INT_MIN), res <= bv(INT_MAX)), guard)
		return ('int', res)

	def premise(self, cond, guard) -> None:
		if self.premises is not None:
			self.premises.add(z3.Implies(guard, cond))

	def compare(self, op: str, l, r, guard=None):
		if l[0] == 'list' or r[0] == 'list':
			raise Unsupported('list comparison')
		a, b = to_int(l), to_int(r)
		if l[0] == 'size' or r[0] == 'size':
			# C++ usual arithmetic conversions: an int compared with a std::size_t is compared as unsigned
			self.tag('len-unsigned', z3.And(a >= bv(0), b >= bv(0)), guard if guard is not None else z3.BoolVal(True))
			return ('bool', {'<': z3.ULT(a, b), '<=': z3.ULE(a, b), '>': z3.UGT(a, b), '>=': z3.UGE(a, b), '==': a == b, '!=': a != b}[op])
		return ('bool', {'<': a < b, '<=': a <= b, '>': a > b, '>=': a >= b, '==': a == b, '!=': a != b}[op])

	# ---------------------------------------------------------------- lists (bounded: length <= CAP)
	def index(self, lv, iv, guard):
		if lv[0] != 'list':
			raise Unsupported('index of a non-list')
		n, elems = lv[1]
		i = to_int(iv)
		if self.lang == 'py':
			# Python: a negative index counts from the end; outside [-n, n) it raises IndexError (outside the agreement region)
			idx = z3.If(i < bv(0), i + n, i)
			self.premise(z3.And(idx >= bv(0), idx < n), guard)
			self.tag('negative-index', i >= bv(0), guard)
			return ('int', select(elems, idx, bv(0)))
		# C++ operator[]: no normalisation; outside [0, size) the behaviour is undefined -> an arbitrary value
		return ('int', z3.If(z3.And(i >= bv(0), i < n), select(elems, i, bv(0)), fresh('oob')))

	def append(self, lv, v, take, guard):
		n, elems = lv[1]
		self.premise(z3.Implies(take, n < bv(CAP)), guard)
		x = to_int(v)
		return ('list', (z3.If(take, n + bv(1), n), [z3.If(z3.And(take, n == bv(k)), x, elems[k]) for k in range(CAP)]))

	def expr(self, e, env: dict, guard):
		k = e[0]
		if k == 'var':
			if e[1] not in env:
				raise Unsupported(f'unbound {e[1]}')
			return env[e[1]]
		if k == 'int':
			return ('int', bv(e[1]))
		if k == 'bool':
			return ('bool', z3.BoolVal(e[1]))
		if k == 'un':
			v = self.expr(e[2], env, guard)
			if e[1] == 'not':
				return ('bool', z3.Not(to_bool(v)))
			if e[1] == '-':
				res = -to_int(v)
				if self.premises is not None:
					self.premise(z3.And(res >= bv(INT_MIN), res <= bv(INT_MAX)), guard)
				return ('int', res)
			if e[1] == '+':
				return ('int', to_int(v))
			if e[1] == '~':
				return ('int', ~to_int(v))
			raise Unsupported(f'unary {e[1]}')
		if k == 'bin':
			op = e[1]
			l = self.expr(e[2], env, guard)
			r = self.expr(e[3], env, guard)
			if op in ('<', '<=', '>', '>=', '==', '!='):
				return self.compare(op, l, r, guard)
			return self.arith(op, l, r, guard)
		if k == 'cmpchain':
			items = e[1]
			vals = [self.expr(items[i], env, guard) for i in range(0, len(items), 2)]
			conj = []
			for i in range(len(vals) - 1):
				conj.append(to_bool(self.compare(items[2 * i + 1], vals[i], vals[i + 1], guard)))
			return ('bool', z3.And(*conj) if len(conj) > 1 else conj[0])
		if k == 'rangecond':
			# Python's range(start, stop, step): i < stop for a positive step, i > stop for a negative one; step == 0 raises ValueError
			var = to_int(self.expr(e[1], env, guard))
			stop = to_int(self.expr(e[2], env, guard))
			step = to_int(self.expr(e[3], env, guard))
			self.premise(step != bv(0), guard)
			return ('bool', z3.If(step > bv(0), var < stop, var > stop))
		if k in ('and', 'or') and self.lang == 'py':
			# Python: `x and y` / `x or y` yield one of the operands (its value, not its truth value)
			vals = []
			g = guard
			for sub in e[1]:
				v = self.expr(sub, env, g)
				vals.append(v)
				t = to_bool(v)
				g = z3.And(g, t) if k == 'and' else z3.And(g, z3.Not(t))
			if any(v[0] != 'bool' for v in vals):
				self.tag('boolop-value', z3.BoolVal(False), guard)
			res = vals[-1]
			for v in reversed(vals[:-1]):
				t = to_bool(v)
				res = self.merge(z3.Not(t) if k == 'and' else t, v, res)
			return res
		if k in ('and', 'or'):
			# C++ && / ||: a bool; short circuit matters for premises only
			acc = None
			g = guard
			for sub in e[1]:
				v = to_bool(self.expr(sub, env, g))
				if acc is None:
					acc = v
				else:
					acc = z3.And(acc, v) if k == 'and' else z3.Or(acc, v)
				g = z3.And(g, acc) if k == 'and' else z3.And(g, z3.Not(acc))
			return ('bool', acc)
		if k == 'ifexp':
			c = to_bool(self.expr(e[1], env, guard))
			a = self.expr(e[2], env, z3.And(guard, c))
			b = self.expr(e[3], env, z3.And(guard, z3.Not(c)))
			return self.merge(c, a, b)
		if k == 'call':
			return self.call(e[1], [self.expr(a, env, guard) for a in e[2]], guard)
		if k == 'index':
			return self.index(self.expr(e[1], env, guard), self.expr(e[2], env, guard), guard)
		if k == 'pylen':
			lv = self.expr(e[1], env, guard)
			if lv[0] != 'list':
				raise Unsupported('iteration over a non-list')
			return ('int', lv[1][0])
		if k == 'len':
			lv = self.expr(e[1], env, guard)
			if lv[0] != 'list':
				raise Unsupported('len of a non-list')
			return ('size' if self.lang == 'cpp' else 'int', lv[1][0])
		if k == 'in':
			x = to_int(self.expr(e[1], env, guard))
			lv = self.expr(e[2], env, guard)
			if lv[0] != 'list':
				raise Unsupported('membership in a non-list')
			n, elems = lv[1]
			return ('bool', z3.Or(*[z3.And(bv(j) < n, elems[j] == x) for j in range(CAP)]))
		if k == 'listlit':
			if len(e[1]) > CAP:
				raise Unsupported('list literal longer than the bound')
			vals = [to_int(self.expr(x, env, guard)) for x in e[1]]
			return ('list', (bv(len(vals)), vals + [bv(0)] * (CAP - len(vals))))
		if k == 'listfill':
			v = to_int(self.expr(e[1], env, guard))
			cv = self.expr(e[2], env, guard)
			count = narrow(cv[1]) if cv[0] == 'size' else to_int(cv)
			self.premise(z3.And(count >= bv(0), count <= bv(CAP)), guard)
			return ('list', (count, [v] * CAP))
		if k == 'listcomp':
			# python only: [elt for var in iter if cond]; the comprehension variable does not leak
			_, elt, var, it, cond = e
			lv = self.expr(it, env, guard)
			if lv[0] != 'list':
				raise Unsupported('comprehension over a non-list')
			n, elems = lv[1]
			res = ('list', (bv(0), [bv(0)] * CAP))
			for j in range(CAP):
				inside = bv(j) < n
				env2 = dict(env)
				env2[var] = ('int', elems[j])
				g = z3.And(guard, inside)
				c = to_bool(self.expr(cond, env2, g)) if cond is not None else z3.BoolVal(True)
				v = self.expr(elt, env2, z3.And(g, c))
				res = self.append(res, v, z3.And(inside, c), guard)
			return res
		if k == 'rangecomp':
			# python only: [elt for var in range(...) if cond]; at most CAP iterations inside the claim (premise)
			_, elt, var, rargs, cond = e
			vals = [to_int(self.expr(a, env, guard)) for a in rargs]
			start, stop, step = (bv(0), vals[0], bv(1)) if len(vals) == 1 else (vals[0], vals[1], bv(1)) if len(vals) == 2 else (vals[0], vals[1], vals[2])
			self.premise(step != bv(0), guard)
			res = ('list', (bv(0), [bv(0)] * CAP))
			i = start
			running = z3.BoolVal(True)
			for _j in range(CAP):
				inside = z3.And(running, z3.If(step > bv(0), i < stop, i > stop))
				env2 = dict(env)
				env2[var] = ('int', i)
				g = z3.And(guard, inside)
				c = to_bool(self.expr(cond, env2, g)) if cond is not None else z3.BoolVal(True)
				v = self.expr(elt, env2, z3.And(g, c))
				res = self.append(res, v, z3.And(inside, c), guard)
				running = inside
				i = i + step
			self.premise(z3.Not(z3.And(running, z3.If(step > bv(0), i < stop, i > stop))), guard)
			return res
		if k == 'enum':
			if e[1] not in self.enums or e[2] not in self.enums[e[1]]:
				raise Unsupported(f'enum member {e[1]}::{e[2]}')
			return ('int', bv(self.enums[e[1]][e[2]]))
		if k == 'attr' and e[1][0] == 'var' and e[1][1] in self.enums and e[1][1] not in env:
			if e[2] not in self.enums[e[1][1]]:
				raise Unsupported(f'enum member {e[1][1]}.{e[2]}')
			return ('int', bv(self.enums[e[1][1]][e[2]]))
		if k == 'attr' and e[2] == 'value' and e[1][0] == 'attr' and e[1][1][0] == 'var' and e[1][1][1] in self.enums and e[1][1][1] not in env:
			return self.expr(e[1], env, guard)
		if k == 'attr':
			ov = self.expr(e[1], env, guard)
			if ov[0] == 'obj' and e[2] not in ov[1][1] and self.lang == 'py':
				# a property: python reads it like a field
				try:
					owner_p, _ = self.lookup_method(ov[1][0], e[2])
				except Unsupported:
					owner_p = None
				if owner_p is not None and e[2] in self.classes_def[owner_p].get('props', ()):
					value, _ = self.invoke_method(ov, e[2], [], guard, via_self=e[1] == ('var', 'self'))
					if value is None:
						raise Unsupported('property without value')
					return value
			if ov[0] != 'obj' or e[2] not in ov[1][1]:
				raise Unsupported(f'attribute {e[2]}')
			return ov[1][1][e[2]]
		if k == 'scall' or (k == 'mcall' and e[1][0] == 'var' and e[1][1] in self.classes_def and e[1][1] not in env):
			cls, mname, margs = (e[1], e[2], e[3]) if k == 'scall' else (e[1][1], e[2], e[3])
			owner, (params, body, rtype) = self.lookup_method(cls, mname)
			if mname not in self.classes_def[owner].get('static', ()):
				raise Unsupported('call of a non-static method through the class')
			value = self.run_static(cls, owner, params, body, rtype, [self.expr(a, env, guard) for a in margs], guard)
			if value is None:
				raise Unsupported('static method without value')
			return value
		if k == 'mcall':
			ov = self.expr(e[1], env, guard)
			if ov[0] != 'obj':
				raise Unsupported('method call on a non-object')
			value, after = self.invoke_method(ov, e[2], [self.expr(a, env, guard) for a in e[3]], guard, static=self.cur_class[-1] if (self.lang == 'cpp' and e[1] == ('var', 'this') and self.cur_class) else None, via_self=e[1] == ('var', 'self'))
			if after is not ov and any(after[1][1][f] is not ov[1][1][f] for f in after[1][1]):
				raise Unsupported('a method that writes fields, called inside an expression')
			if value is None:
				raise Unsupported('method without value in an expression')
			return value
		if k == 'comma':
			self.expr(e[1], env, guard)
			return self.expr(e[2], env, guard)
		if k == 'iife':
			# C++ `[&]() -> T { ... }()`: runs in place; the generated bodies only write their own locals
			outs = self.block(e[1], dict(env), {}, guard)
			value = None
			for cond, kind, v, _ in outs:
				if kind == 'return' and v is not None:
					value = v if value is None else self.merge(cond, v, value)
				elif kind == 'raise':
					self.callee_raises.append(cond)
			if value is None:
				raise Unsupported('lambda without value')
			return value
		raise Unsupported(f'expression {k}')

	def convert(self, v, typ: str | None):
		"""C++ declared types convert on initialisation / assignment / return; Python keeps the dynamic type"""
		if typ == 'bool':
			return ('bool', to_bool(v))
		if typ == 'int':
			return ('int', narrow(v[1])) if v[0] == 'size' else ('int', to_int(v))
		return v

	def builtin(self, name: str, args: list, guard):
		if name == 'abs' and len(args) == 1:
			x = to_int(args[0])
			res = z3.If(x < bv(0), -x, x)
			if self.premises is not None:
				self.premise(z3.And(res >= bv(INT_MIN), res <= bv(INT_MAX)), guard)
			return ('int', res)
		if name in ('min', 'max') and len(args) == 2:
			a, b = to_int(args[0]), to_int(args[1])
			return ('int', z3.If(a < b, a, b) if name == 'min' else z3.If(a > b, a, b))
		if name == 'len' and len(args) == 1 and args[0][0] == 'list':
			return ('size' if self.lang == 'cpp' else 'int', args[0][1][0])
		if name == 'int' and len(args) == 1:
			return ('int', narrow(args[0][1])) if args[0][0] == 'size' else ('int', to_int(args[0]))
		if name == 'bool' and len(args) == 1:
			return ('bool', to_bool(args[0]))
		return None

	def lookup_method(self, cls: str, name: str):
		c = cls
		while c is not None:
			d = self.classes_def.get(c)
			if d is None:
				break
			if name in d['methods']:
				return c, d['methods'][name]
			c = d['base']
		raise Unsupported(f'method {name} of {cls}')

	def all_fields(self, cls: str) -> list:
		d = self.classes_def[cls]
		return (self.all_fields(d['base']) if d['base'] in self.classes_def else []) + list(d['fields'])

	def run_body(self, owner: str, this_name: str, obj, params: list, body: list, args: list, guard):
		"""execute a method / constructor body with the object bound to self / this -> (return value | None, object afterwards)"""
		env = {this_name: obj}
		for i, (pn, pt, pd) in enumerate(params):
			if i < len(args):
				env[pn] = self.convert(args[i], pt if self.lang == 'cpp' else None)
			elif pd is not None:
				env[pn] = self.convert(self.expr(pd, {}, guard), pt if self.lang == 'cpp' else None)
			else:
				raise Unsupported('missing argument')
		self.depth += 1
		if self.depth > 6:
			raise Unsupported('call depth')
		self.cur_class.append(owner)
		try:
			outs = self.block(body, env, {pn: pt for pn, pt, _ in params}, guard)
		finally:
			self.cur_class.pop()
			self.depth -= 1
		value, after = None, None
		for cond, kind, v, en in outs:
			if kind == 'raise':
				self.callee_raises.append(cond)
				continue
			if kind not in ('return', 'fall'):
				continue
			if kind == 'return' and v is not None:
				value = v if value is None else self.merge(cond, v, value)
			o2 = en.get(this_name, obj)
			after = o2 if after is None else self.merge(cond, o2, after)
		return value, (after if after is not None else obj)

	def run_static(self, cls: str, owner: str, params: list, body: list, rtype, args: list, guard):
		"""a class method: python binds `cls` to the class the call went through"""
		env = {}
		for i, (pn, pt, pd) in enumerate(params):
			if i < len(args):
				env[pn] = self.convert(args[i], pt if self.lang == 'cpp' else None)
			else:
				raise Unsupported('missing argument')
		self.depth += 1
		if self.depth > 6:
			raise Unsupported('call depth')
		self.cur_class.append(owner)
		self.cls_binding = getattr(self, 'cls_binding', []) + [cls]
		try:
			outs = self.block(body, env, {pn: pt for pn, pt, _ in params}, guard)
		finally:
			self.cur_class.pop()
			self.cls_binding = self.cls_binding[:-1]
			self.depth -= 1
		value = None
		for cond, kind, v, _ in outs:
			if kind == 'raise':
				self.callee_raises.append(cond)
			elif kind == 'return' and v is not None:
				value = v if value is None else self.merge(cond, v, value)
		return value

	def invoke_method(self, obj, name: str, args: list, guard, static: str | None = None, via_self: bool = False):
		cls = obj[1][0]
		owner, (params, body, rtype) = self.lookup_method(static or cls, name)
		if self.lang == 'py' and via_self and self.cur_class and self.lookup_method(self.cur_class[-1], name)[0] != owner:
			# python dispatches self.m() on the object's class; the emitted C++ methods are not virtual
			self.tag('non-virtual-dispatch', z3.BoolVal(False), guard)
		value, after = self.run_body(owner, 'this' if self.lang == 'cpp' else 'self', obj, params, body, args, guard)
		if value is not None and self.lang == 'cpp':
			value = self.convert(value, rtype)
		return value, after

	def construct(self, cls: str, args: list, guard, obj=None):
		d = self.classes_def[cls]
		if self.lang == 'py':
			obj = obj or ('obj', (cls, {}))
			owner, (params, body, _) = self.lookup_method(cls, '__init__')
			_, after = self.run_body(owner, 'self', obj, params, body, args, guard)
			return ('obj', (cls, after[1][1]))
		# C++: base constructor, then the member initialisers in *declaration* order of the fields, then the body
		if '__init__' not in d['methods']:
			raise Unsupported('class without constructor')
		params, body, _ = d['methods']['__init__']
		env = {}
		for i, (pn, pt, pd) in enumerate(params):
			if i < len(args):
				env[pn] = self.convert(args[i], pt)
			else:
				raise Unsupported('missing constructor argument')
		fields = dict(obj[1][1]) if obj else {f: ('int', fresh('uninit')) for f in self.all_fields(cls)}
		if d['base'] in self.classes_def:
			if d['super_args'] is None:
				raise Unsupported('base class without an explicit constructor call')
			base_obj = self.construct(d['base'], [self.expr(a, env, guard) for a in d['super_args']], guard, ('obj', (cls, fields)))
			fields = dict(base_obj[1][1])
		inits = dict(d['inits'] or [])
		reads = {f: attrs_read(x) for f, x in inits.items()}
		order = list(d['fields'])
		for f, used in reads.items():
			src_order = self.source_field_order.get(cls, order)
			if any(u in src_order and f in src_order and src_order.index(u) > src_order.index(f) for u in used):
				# C++ initialises members in declaration order: this initialiser reads a member the *source* declares after it
				# (the listed finding; an inversion that only exists in the emitted order is not covered by it)
				self.tag('member-init-declaration-order', z3.BoolVal(False), guard)
			if any(st[0] == 'setattr' and st[1] == 'this' and st[2] in used for st in flat(body)):
				# the constructor body stores to a member that an initialiser (hoisted in front of the body) has read
				self.tag('ctor-initializer-hoisting', z3.BoolVal(False), guard)
		for f in d['fields']:
			if f in inits:
				env_this = dict(env)
				env_this['this'] = ('obj', (cls, dict(fields)))
				fields[f] = self.convert(self.expr(inits[f], env_this, guard), 'int')
		_, after = self.run_body(cls, 'this', ('obj', (cls, fields)), params, body, args, guard)
		return ('obj', (cls, after[1][1]))

	def call(self, name: str, args: list, guard):
		if name == 'cls' and getattr(self, 'cls_binding', None):
			return self.construct(self.cls_binding[-1], args, guard)
		if name in self.classes_def:
			return self.construct(name, args, guard)
		b = self.builtin(name, args, guard)
		if b is not None:
			return b
		if name not in self.functions:
			raise Unsupported(f'call of {name}')
		self.depth += 1
		if self.depth > 4:
			raise Unsupported('call depth')
		params, body, rtype = self.functions[name]
		env = {}
		for i, (pn, pt, pd) in enumerate(params):
			if i < len(args):
				env[pn] = self.convert(args[i], pt if self.lang == 'cpp' else None)
			elif pd is not None:
				env[pn] = self.convert(self.expr(pd, {}, guard), pt if self.lang == 'cpp' else None)
			else:
				raise Unsupported('missing argument')
		outs = self.block(body, env, {}, guard)
		self.depth -= 1
		value = None
		raised = z3.BoolVal(False)
		for cond, kind, v, _ in outs:
			if kind == 'return' and v is not None:
				v = self.convert(v, rtype if self.lang == 'cpp' else None)
				value = v if value is None else self.merge(cond, v, value)
			elif kind == 'raise':
				raised = z3.Or(raised, cond)
		# a raise inside a callee propagates: model it by recording it on the machine (checked by the top level)
		self.callee_raises.append(raised)
		if value is None:
			raise Unsupported('callee without value')
		return value

	def merge(self, cond, a, b):
		if a[0] == 'obj' or b[0] == 'obj':
			if a[0] != b[0] or a[1][0] != b[1][0]:
				raise Unsupported('objects of different classes merged')
			fa, fb = a[1][1], b[1][1]
			return ('obj', (a[1][0], {k: (fa[k] if fa[k] is fb[k] else self.merge(cond, fa[k], fb[k])) for k in fa if k in fb}))
		if a[0] == 'list' or b[0] == 'list':
			if a[0] != b[0]:
				raise Unsupported('list merged with a scalar')
			return ('list', (z3.If(cond, a[1][0], b[1][0]), [z3.If(cond, x, y) for x, y in zip(a[1][1], b[1][1])]))
		if a[0] == 'bool' and b[0] == 'bool':
			return ('bool', z3.If(cond, a[1], b[1]))
		return ('size' if 'size' in (a[0], b[0]) else 'int', z3.If(cond, to_int(a), to_int(b)))

	# ---------------------------------------------------------------- statements
	def block(self, stmts: list, env: dict, types: dict, guard):
		"""-> list of (condition, kind, value, env) outcomes; kind 'fall' carries the environment after the block"""
		live = [(guard, env)]
		outs = []
		for st in stmts:
			nxt = []
			for g, en in live:
				for cond, kind, v, e2 in self.stmt(st, en, types, g):
					if kind == 'fall':
						nxt.append((cond, e2))
					else:
						outs.append((cond, kind, v, e2))
			live = self.join(nxt)
			if not live:
				break
		for g, en in live:
			outs.append((g, 'fall', None, en))
		return outs

	def scoped(self, stmts: list, env: dict, types: dict, guard):
		"""a nested block: in C++ a name declared inside it shadows the outer one and dies with the block; Python has no block scope"""
		outs = self.block(stmts, env, types if self.lang == 'py' else dict(types), guard)
		if self.lang != 'cpp':
			return outs
		declared = {st[2] for st in stmts if st[0] == 'decl'}
		if not declared:
			return outs
		fixed = []
		for cond, kind, v, e2 in outs:
			e3 = dict(e2)
			for name in declared:
				if name in env:
					e3[name] = env[name]
				else:
					e3.pop(name, None)
			fixed.append((cond, kind, v, e3))
		return fixed

	def write_through(self, name: str, v, env: dict, guard) -> dict:
		ref = getattr(self, 'refs', {}).get(name) if self.lang == 'cpp' else None
		if ref is None or ref[0] not in env or ref[1] not in env or env[ref[0]][0] != 'list':
			return env
		self.tag('foreach-reference', z3.BoolVal(False), guard)
		n, elems = env[ref[0]][1]
		pos = to_int(env[ref[1]])
		env[ref[0]] = ('list', (n, [z3.If(pos == bv(j), to_int(v), elems[j]) for j in range(CAP)]))
		return env

	def join(self, states: list) -> list:
		"""merge environments of converging paths (keeps the number of live states at one)"""
		if len(states) <= 1:
			return states
		g0, e0 = states[0]
		for g1, e1 in states[1:]:
			merged = {}
			for name in set(e0) | set(e1):
				if name in e0 and name in e1:
					merged[name] = e0[name] if e0[name] is e1[name] else self.merge(g0, e0[name], e1[name])
				# a name bound on one path only is not readable afterwards in the generated programs
			g0, e0 = z3.Or(g0, g1), merged
		return [(g0, e0)]

	def stmt(self, st, env: dict, types: dict, guard):
		k = st[0]
		if k in ('decl', 'assign'):
			if k == 'decl':
				_, typ, name, e = st
				if typ:
					types[name] = typ
			else:
				_, name, e = st
			v = self.expr(e, env, guard)
			if self.lang == 'cpp':
				t = types.get(name)
				if t == 'auto' or (t is None and k == 'decl'):
					types[name] = v[0]
					t = v[0]
				v = self.convert(v, t)
			env = dict(env)
			env[name] = v
			if k == 'assign':
				env = self.write_through(name, v, env, guard)
			return [(guard, 'fall', None, env)]
		if k == 'aug':
			_, op, name, e = st
			cur = env[name]
			v = self.arith(op, cur, self.expr(e, env, guard), guard)
			if self.lang == 'cpp':
				v = self.convert(v, types.get(name))
			env = dict(env)
			env[name] = v
			env = self.write_through(name, v, env, guard)
			return [(guard, 'fall', None, env)]
		if k == 'if':
			_, c, then, orelse = st
			cv = to_bool(self.expr(c, env, guard))
			outs = self.scoped(then, env, types, z3.And(guard, cv))
			outs += self.scoped(orelse, env, types, z3.And(guard, z3.Not(cv)))
			return outs
		if k == 'while':
			return self.loop(st[1], st[2], None, env, types, guard)
		if k == 'for':
			_, name, start, cond, step, body = st[:6]
			continue_class = st[6] if len(st) > 6 else None
			env = dict(env)
			sv = self.expr(start, env, guard)
			# C++ `auto i = <start>`: std::size_t when the start value is one (e.g. xs.size() - 1), else int
			ltype = 'size' if self.lang == 'cpp' and sv[0] == 'size' else 'int'
			if self.lang == 'cpp':
				types[name] = ltype
			outer = env.get(name)
			env[name] = (ltype, to_int(sv))
			outs = self.loop(cond, body, step, env, types, guard, continue_class)
			if self.lang == 'cpp':
				# `for (auto i = ...)`: the loop variable lives in the loop only
				fixed = []
				for c2, kind, v, e2 in outs:
					e3 = dict(e2)
					if outer is not None:
						e3[name] = outer
					else:
						e3.pop(name, None)
					fixed.append((c2, kind, v, e3))
				outs = fixed
			return outs
		if k == 'setattr':
			_, oname, field, e = st
			if oname not in env or env[oname][0] != 'obj':
				raise Unsupported('attribute store on a non-object')
			v = self.expr(e, env, guard)
			cls, fields = env[oname][1]
			if self.lang == 'cpp':
				if field not in fields:
					raise Unsupported(f'store to an undeclared member {field}')
				v = self.convert(v, 'bool' if fields[field][0] == 'bool' else 'int')
			fields = dict(fields)
			fields[field] = v
			env = dict(env)
			env[oname] = ('obj', (cls, fields))
			return [(guard, 'fall', None, env)]
		if k == 'mstmt':
			call = st[1]
			if call[0] == 'supercall':
				# python: super().__init__(...) inside a constructor
				owner = self.cur_class[-1] if self.cur_class else None
				base = self.classes_def[owner]['base'] if owner in self.classes_def else None
				if base is None or 'self' not in env:
					raise Unsupported('super() outside a derived class')
				_, (params, body, _) = self.lookup_method(base, call[1])
				_, after = self.run_body(base, 'self', env['self'], params, body, [self.expr(a, env, guard) for a in call[2]], guard)
				env = dict(env)
				env['self'] = ('obj', (env['self'][1][0], after[1][1]))
				return [(guard, 'fall', None, env)]
			_, recv, mname, margs = call
			if recv[0] != 'var' or recv[1] not in env or env[recv[1]][0] != 'obj':
				raise Unsupported('method call statement on something that is not a local object')
			static = self.cur_class[-1] if (self.lang == 'cpp' and recv[1] == 'this' and self.cur_class) else None
			_, after = self.invoke_method(env[recv[1]], mname, [self.expr(a, env, guard) for a in margs], guard, static=static, via_self=recv[1] == 'self')
			env = dict(env)
			env[recv[1]] = ('obj', (env[recv[1]][1][0], after[1][1]))
			return [(guard, 'fall', None, env)]
		if k == 'foreach':
			# ('foreach', var, list expr, body, index var | None): desugared to a counted loop over a hidden position
			_, var, it, body, ivar = st
			self.hidden = getattr(self, 'hidden', 0) + 1
			pos = f'$pos{self.hidden}'
			head = [('assign', var, ('index', it, ('var', pos)))] + ([('assign', ivar, ('var', pos))] if ivar else [])
			if self.lang == 'cpp':
				head = [('decl', 'int', var, ('index', it, ('var', pos)))]
				if it[0] == 'var':
					# `auto& x`: an assignment to x inside the body writes the list element
					self.refs = dict(getattr(self, 'refs', {}))
					self.refs[var] = (it[1], pos)
			return self.stmt(('for', pos, ('int', 0), ('bin', '<', ('var', pos), ('pylen', it)), ('aug', '+', pos, ('int', 1)), head + body, 'enumerate-continue' if ivar and self.lang == 'py' else None), env, types, guard)
		if k == 'append':
			_, name, e = st
			if name not in env or env[name][0] != 'list':
				raise Unsupported('append to a non-list')
			env = dict(env)
			env[name] = self.append(env[name], self.expr(e, env, guard), z3.BoolVal(True), guard)
			return [(guard, 'fall', None, env)]
		if k == 'setitem':
			_, name, ie, e = st
			if name not in env or env[name][0] != 'list':
				raise Unsupported('item assignment to a non-list')
			n, elems = env[name][1]
			i = to_int(self.expr(ie, env, guard))
			x = to_int(self.expr(e, env, guard))
			if self.lang == 'py':
				idx = z3.If(i < bv(0), i + n, i)
				self.premise(z3.And(idx >= bv(0), idx < n), guard)
				self.tag('negative-index', i >= bv(0), guard)
			else:
				idx = i
			env = dict(env)
			env[name] = ('list', (n, [z3.If(idx == bv(j), x, elems[j]) for j in range(CAP)]))
			return [(guard, 'fall', None, env)]
		if k == 'multi':
			names, exprs = st[1], st[2]
			vals = [self.expr(x, env, guard) for x in exprs]
			env = dict(env)
			for i, (name, v) in enumerate(zip(names, vals)):
				if self.lang == 'cpp':
					if name in types:
						raise Unsupported('structured binding redeclares a name')
					typ = st[3][i] if len(st) > 3 else v[0]
					types[name] = typ
					v = self.convert(v, typ)
				env[name] = v
			return [(guard, 'fall', None, env)]
		if k == 'try':
			# ('try', body, handler): a raise inside the body (not inside a callee: the templates raise directly) runs the handler
			_, body, handler = st
			before = len(self.callee_raises)
			outs = []
			for cond, kind, v, e2 in self.scoped(body, env, types, guard):
				if kind == 'raise':
					outs += self.scoped(handler, e2, types, cond)
				else:
					outs.append((cond, kind, v, e2))
			if len(self.callee_raises) != before:
				raise Unsupported('a call that may raise inside a try block')
			return outs
		if k == 'return':
			v = self.expr(st[1], env, guard) if st[1] is not None else None
			return [(guard, 'return', v, env)]
		if k == 'break':
			return [(guard, 'break', None, env)]
		if k == 'continue':
			return [(guard, 'continue', None, env)]
		if k == 'raise':
			return [(guard, 'raise', None, env)]
		if k == 'expr':
			self.expr(st[1], env, guard)
			return [(guard, 'fall', None, env)]
		raise Unsupported(f'statement {k}')

	def loop(self, cond, body, step, env, types, guard, continue_class=None):
		outs = []
		live = [(guard, env)]
		for _ in range(self.unroll):
			nxt = []
			for g, en in live:
				cv = to_bool(self.expr(cond, en, g))
				outs.append((z3.And(g, z3.Not(cv)), 'fall', None, en))
				for c2, kind, v, e2 in self.scoped(body, en, types, z3.And(g, cv)):
					if kind in ('fall', 'continue'):
						if kind == 'continue' and continue_class:
							self.tag(continue_class, z3.BoolVal(False), c2)
						if step is not None:
							(c3, _, _, e3), = self.stmt(step, e2, types, c2)
							nxt.append((c3, e3))
						else:
							nxt.append((c2, e2))
					elif kind == 'break':
						outs.append((c2, 'fall', None, e2))
					else:
						outs.append((c2, kind, v, e2))
			live = self.join(nxt)
			if not live:
				break
		# unwinding assumption: after `unroll` iterations the loop condition is false
		for g, en in live:
			cv = to_bool(self.expr(cond, en, g))
			if self.premises is not None:
				self.premises.add(z3.Implies(g, z3.Not(cv)))
			outs.append((z3.And(g, z3.Not(cv)), 'fall', None, en))
		# merge the fall-through exits
		falls = [(c, e) for c, kd, _, e in outs if kd == 'fall']
		rest = [o for o in outs if o[1] != 'fall']
		for g, en in self.join(falls):
			rest.append((g, 'fall', None, en))
		return rest

	def run(self, name: str, inputs: dict):
		"""-> (raised: z3 Bool, value: (type, term) | None)"""
		self.callee_raises: list = []
		params, body, rtype = self.functions[name]
		env = {}
		for pn, pt, pd in params:
			env[pn] = inputs[pn]
		outs = self.block(body, env, {pn: pt for pn, pt, _ in params}, z3.BoolVal(True))
		raised = z3.BoolVal(False)
		value = None
		for cond, kind, v, _ in outs:
			if kind == 'raise':
				raised = z3.Or(raised, cond)
			elif kind == 'return' and v is not None:
				v = self.convert(v, rtype if self.lang == 'cpp' else None)
				value = v if value is None else self.merge(cond, v, value)
		for r in self.callee_raises:
			raised = z3.Or(raised, r)
		return raised, value
