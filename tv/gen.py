"""Program shapes for the translation validation of C01: typed scalar functions over int parameters a, b, d and a bool parameter c.

Every function is inside the subset in which Python and C++ agree by construction *when grouped the same way*; the premises that
make that true for concrete values (non-negative modulo / shift operands, results fitting `int`, loops leaving within the unrolling)
are collected by the Python-side symbolic run and assumed in the query.
"""
import ast
import itertools
import random

ARITH = ['+', '-', '*', '%', '<<', '>>']
BITS = ['&', '|', '^']
CMP = ['<', '<=', '>', '>=', '==', '!=']
ALLBIN = ARITH + BITS + CMP
HEAD = 'a: int, b: int, d: int, c: bool'


def result_type(expr: str) -> str:
	n = ast.parse(expr, mode='eval').body
	if isinstance(n, ast.BoolOp):
		# `x or y` yields one of its operands
		return 'bool' if all(result_type(ast.unparse(v)) == 'bool' for v in n.values) else 'int'
	if isinstance(n, ast.Compare) or (isinstance(n, ast.UnaryOp) and isinstance(n.op, ast.Not)):
		return 'bool'
	if isinstance(n, ast.IfExp):
		return 'bool' if result_type(ast.unparse(n.body)) == 'bool' and result_type(ast.unparse(n.orelse)) == 'bool' else 'int'
	if isinstance(n, ast.Constant) and isinstance(n.value, bool):
		return 'bool'
	if isinstance(n, ast.Name) and n.id == 'c':
		return 'bool'
	return 'int'


def has_chain(source: str) -> bool:
	return any(isinstance(n, ast.Compare) and len(n.ops) > 1 for n in ast.walk(ast.parse(source)))


def expr_function(name: str, expr: str) -> str:
	return f'def {name}({HEAD}) -> {result_type(expr)}:\n\treturn {expr}\n'


def expression_shapes(tier: str, seed: int) -> list:
	"""[(category, expression)]"""
	out = []
	for o1, o2 in itertools.product(ALLBIN, repeat=2):
		out.append(('pair', f'a {o1} b {o2} d'))
	for u in ['not', '-', '~']:
		for o in ALLBIN:
			out.append(('unary-left', f'{u} a {o} b'))
			out.append(('unary-right', f'a {o} {u} b'))
	out += [('unary-unary', e) for e in ['- -a', '-~a', '~-a', 'not not c', 'not -a == b', '- -a - -b', '+-a', 'a - -b', 'a + +b', 'a * -b']]
	atoms = ['a < b', 'c', 'not c', 'a == d', 'b != d']
	for p, q, r in itertools.product(atoms[:4], repeat=3):
		for b1, b2 in itertools.product(['and', 'or'], repeat=2):
			out.append(('bool', f'{p} {b1} {q} {b2} {r}'))
	out += [('bool', e) for e in ['not (a < b and c)', 'not a < b and c', 'not (a < b or c) and b == d', 'not c or not a == b', '(a < b) == c', '(a < b) != (b < d)', 'c == (a == b)']]
	tern = ['a if c else b', 'a + (b if c else d)', 'a if c else b + d', '(a if c else b) + d', 'a if a < b else b if b < d else d', '(a if c else b) if a < d else d', 'a < b if c else b < d',
		'(1 if a < b else 0) + (1 if c else 0)', 'a * (1 if c else -1)', 'not (a if c else b) == d']
	out += [('ternary', e) for e in tern]
	chains = ['a < b < d', 'a <= b < d', 'a == b == d', 'a < b == c', 'a < b <= d < a + 5', 'not a < b < d', 'a < b < d and c', 'x' if False else 'a != b != d']
	out += [('chain', e) for e in chains]
	paren = []
	for o1, o2 in itertools.product(ARITH + BITS, repeat=2):
		paren.append(('paren', f'(a {o1} b) {o2} d'))
		paren.append(('paren', f'a {o1} (b {o2} d)'))
	triples = [('triple', f'a {o1} b {o2} d {o3} a') for o1, o2, o3 in itertools.product(ALLBIN, repeat=3)]
	mixed = [('mixed', f'{u}(a {o1} b) {o2} d') for u in ['not ', '-', '~'] for o1, o2 in itertools.product(ALLBIN, repeat=2)]
	builtins = []
	for o1, o2 in itertools.product(ARITH[:3] + CMP[:3], repeat=2):
		builtins += [('builtin', f'abs(a {o1} b) {o2} d'), ('builtin', f'min(a, b) {o1} max(b {o2 if o2 in ARITH else "+"} d, a)'), ('builtin', f'int(c) {o1} int(a {o2} b)'), ('builtin', f'bool(a {o1} b) {o2} c')]
	builtins += [('unary-bool', e) for e in ['-c', '~c', '+c', '-c + a', 'a - -c', '~c & a', '-(a < b)', '~(a < b) + d', '(-c) * 2']]
	builtins += [('boolop-value', e) for e in ['a or b', 'a and b', '(a or b) + d', 'a or b or d', '(a and b) or d', 'c or a', '(a < b) or d', 'a - (b or 1)', 'abs(a or b)']]
	builtins += [('builtin', e) for e in ['(a < b) is True', '(a < b) is not c', 'c is False or a == b', 'not (c is True)', 'int(a < b) + int(b < d) * 2', 'abs(-a) - abs(a)', 'min(a, max(b, d))', 'bool(a) and bool(b)', 'int(not c)']]
	out += builtins
	nested = []
	for o1, o2, o3 in itertools.product(ARITH[:3] + BITS + CMP[:2], repeat=3):
		if (o3 in BITS and o2 in CMP) or (o1 in BITS and o3 in CMP):
			continue  # bitwise operators on bool operands are refused by tranp's typing (OperationNotAllowed): outside the subset
		nested.append(('nested-paren', f'a {o1} ((a {o2} b) {o3} (d {o2} a))'))
		nested.append(('nested-paren', f'((a {o2} b) {o3} (d {o2} a)) {o1} b'))
	nested += [('nested-paren', e) for e in ['not ((a > b) and (b > d))', 'not ((a > b) or (c))', '-((a + b) - (d - a))', '~((a & b) | (d ^ a))', '((a + b)) * d', '(((a - b))) - d', 'a - (((a + b) - (d - a)))']]
	out += nested
	quads = [('quad', f'a {o1} b {o2} d {o3} a {o4} b') for o1, o2, o3, o4 in itertools.product(ALLBIN, repeat=4)]
	rnd = random.Random(seed)
	out += paren + triples + mixed + rnd.sample(quads, 6000 if tier == 'thorough' else 300)
	return out


STATEMENT_TEMPLATES = [
	# if / elif / else ladders, early returns, declarations with inferred types
	'def {n}({h}) -> int:\n\tx = a {0} b\n\tif a {1} b:\n\t\tx += 1\n\telif a {2} d or c:\n\t\tx = x - d\n\telse:\n\t\treturn -x\n\treturn x\n',
	'def {n}({h}) -> int:\n\tif a {1} b and not c:\n\t\treturn 1\n\tif not a {2} d:\n\t\treturn 2\n\treturn 3\n',
	'def {n}({h}) -> int:\n\tt = a {1} b\n\tu = t and c\n\tv = t or b {2} d\n\treturn (1 if u else 0) + (2 if v else 0) + (4 if not t else 0)\n',
	'def {n}({h}) -> int:\n\tt = a {1} b\n\tx = t + 1\n\ty = x {0} 2\n\treturn y\n',
	'def {n}({h}) -> bool:\n\tx = a {0} b\n\ty = x {1} d\n\treturn y\n',
	# while with counter, break / continue
	'def {n}({h}) -> int:\n\tx = a\n\tn = 0\n\twhile n < 3:\n\t\tn += 1\n\t\tif n {1} b:\n\t\t\tcontinue\n\t\tx = x {0} n\n\t\tif x {2} d:\n\t\t\tbreak\n\treturn x\n',
	'def {n}({h}) -> int:\n\tx = 0\n\ti = a\n\twhile i {1} b and x < 4:\n\t\tx += 1\n\t\ti += 1\n\treturn x + i\n',
	# for over range in its three forms
	'def {n}({h}) -> int:\n\tx = d\n\tfor i in range(a):\n\t\tx = x {0} i\n\treturn x\n',
	'def {n}({h}) -> int:\n\tx = 0\n\tfor i in range(a, b):\n\t\tif i {1} d:\n\t\t\tcontinue\n\t\tx += i\n\treturn x\n',
	'def {n}({h}) -> int:\n\tx = 0\n\tfor i in range(a, b, 2):\n\t\tx = x {0} i\n\t\tif x {2} d:\n\t\t\tbreak\n\treturn x\n',
	'def {n}({h}) -> int:\n\tx = 0\n\tfor i in range(3):\n\t\tfor j in range(i):\n\t\t\tx += a {0} j\n\treturn x\n',
	'def {n}({h}) -> int:\n\tx = a\n\twhile True:\n\t\tx += 1\n\t\tif x {1} b or x > a + 4:\n\t\t\tbreak\n\tz = bool(x {0} d)\n\tif z:\n\t\tpass\n\treturn x + int(z)\n',
	# descending and variable-step ranges
	'def {n}({h}) -> int:\n\tx = 0\n\tfor i in range(a, b, -1):\n\t\tx = x {0} i\n\t\tif i {1} d:\n\t\t\tbreak\n\treturn x\n',
	'def {n}({h}) -> int:\n\tx = 0\n\tfor i in range(a, b, -2):\n\t\tx += i\n\tfor j in range(3, 0, -1):\n\t\tx = x {0} j\n\treturn x\n',
	'def {n}({h}) -> int:\n\tx = 0\n\tfor i in range(a, b, d):\n\t\tif i {1} 0:\n\t\t\tcontinue\n\t\tx += i\n\treturn x\n',
	# augmented assignment
	'def {n}({h}) -> int:\n\tx = a\n\tx {3}= b {0} d\n\tx += 1\n\treturn x\n',
	# parameters and locals reassigned inside nested blocks (declaration placement / shadowing)
	'def {n}({h}) -> int:\n\tif a {1} d:\n\t\tb = b {0} 1\n\telse:\n\t\ta = a + 1\n\treturn a + b\n',
	'def {n}({h}) -> int:\n\tfor i in range(3):\n\t\tb = b + i\n\t\tif b {1} d:\n\t\t\ta = i {0} a\n\treturn a + b\n',
	'def {n}({h}) -> int:\n\tx = 0\n\tif a {1} 0:\n\t\tt = a {0} 1\n\t\tx = t\n\tt = 1\n\tfor i in range(3):\n\t\tt = i + a\n\t\tx += t\n\treturn x + t\n',
	'def {n}({h}) -> int:\n\tx = a\n\twhile x {1} b and x < a + 3:\n\t\ty = x {0} 2\n\t\tx = x + 1\n\t\tif c:\n\t\t\tx = y\n\t\t\tbreak\n\treturn x\n',
	'def {n}({h}) -> int:\n\tx = 0\n\tif c:\n\t\tx = a {0} b\n\telse:\n\t\tx = d\n\tif a {1} b:\n\t\tx = x + 1\n\treturn x\n',
	'def {n}({h}) -> int:\n\tn = 0\n\twhile n < 3:\n\t\tb = n {0} a\n\t\tn += 1\n\tif a {1} 0:\n\t\ta = 0\n\treturn a * 10 + b\n',
	'def {n}({h}) -> int:\n\tif a {1} d:\n\t\tb = a {0} d\n\tfor i in range(2):\n\t\td = i\n\treturn a + b + d\n',
	# unary sign / inversion of a bool stored in an inferred local
	'def {n}({h}) -> int:\n\tt = -c\n\tu = ~(a {1} b)\n\treturn (t {0} a) + u\n',
	# destructuring assignment of a tuple literal
	'def {n}({h}) -> int:\n\tx, y = a {0} 1, b\n\tif x {1} y:\n\t\treturn x - y\n\treturn y\n',
	'def {n}({h}) -> int:\n\tp, q, r = a, b {0} d, a {1} b\n\treturn (p {0} q) + r\n',
	# try / raise / except: state written before the raise is kept, the handler runs, the rest of the body is skipped
	'def {n}({h}) -> int:\n\tx = 0\n\ttry:\n\t\tx = a {0} 1\n\t\tif a {1} b:\n\t\t\traise Exception()\n\t\tx = x {0} d\n\texcept Exception as e:\n\t\tx = x - 1\n\treturn x\n',
	'def {n}({h}) -> int:\n\tx = d\n\tfor i in range(3):\n\t\ttry:\n\t\t\tif i {1} a:\n\t\t\t\traise Exception()\n\t\t\tx = x {0} i\n\t\texcept Exception as e:\n\t\t\tif c:\n\t\t\t\tbreak\n\t\t\tcontinue\n\treturn x\n',
	'def {n}({h}) -> int:\n\ttry:\n\t\tif a {1} b:\n\t\t\traise Exception()\n\t\treturn a {0} d\n\texcept Exception as e:\n\t\tif b {2} d:\n\t\t\traise Exception()\n\t\treturn b\n',
	# raise guarded by a condition
	'def {n}({h}) -> int:\n\tif a {1} b:\n\t\traise Exception()\n\treturn a {0} d\n',
	'def {n}({h}) -> int:\n\tx = a {0} b\n\tif not x {1} d or c:\n\t\traise Exception()\n\treturn x\n',
]
CALL_TEMPLATES = [
	'def {n}_h(p: int, q: int = 2) -> int:\n\treturn p {0} q\n\ndef {n}({h}) -> int:\n\treturn {n}_h(a) {0} {n}_h(b, d)\n',
	'def {n}_h(p: int, q: bool) -> bool:\n\treturn p {1} 0 and q\n\ndef {n}({h}) -> int:\n\tif {n}_h(a, c) or {n}_h(b, not c):\n\t\treturn 1\n\treturn 0\n',
	'def {n}_h(p: int) -> int:\n\tif p {1} 0:\n\t\traise Exception()\n\treturn p + 1\n\ndef {n}({h}) -> int:\n\treturn {n}_h(a) + {n}_h(b)\n',
]
LIST_HEAD = 'xs: list[int], a: int, b: int, c: bool'
LIST_TEMPLATES = [
	# iteration: for-in with accumulation, break / continue, nesting
	'def {n}({h}) -> int:\n\tt = 0\n\tfor x in xs:\n\t\tt = t {0} x\n\treturn t\n',
	'def {n}({h}) -> int:\n\tt = 0\n\tfor x in xs:\n\t\tif x {1} a:\n\t\t\tcontinue\n\t\tif x {2} b:\n\t\t\tbreak\n\t\tt += x\n\treturn t\n',
	'def {n}({h}) -> int:\n\tt = 0\n\tfor x in xs:\n\t\tfor y in xs:\n\t\t\tif x {1} y:\n\t\t\t\tt += 1\n\treturn t\n',
	'def {n}({h}) -> int:\n\tfor x in xs:\n\t\ta = a {0} x\n\t\tif a {1} b:\n\t\t\treturn x\n\treturn a\n',
	# enumerate, without and with continue
	'def {n}({h}) -> int:\n\tt = 0\n\tfor i, x in enumerate(xs):\n\t\tt += i {0} x\n\treturn t\n',
	'def {n}({h}) -> int:\n\tt = 0\n\tfor i, x in enumerate(xs):\n\t\tif x {1} a:\n\t\t\tcontinue\n\t\tt += i\n\treturn t\n',
	'def {n}({h}) -> int:\n\tt = 0\n\tfor i, x in enumerate(xs):\n\t\tif x {1} a:\n\t\t\tbreak\n\t\tt = i {0} x\n\treturn t\n',
	# indexing: counted loop, symbolic index, last element, constant negative index
	'def {n}({h}) -> int:\n\tt = 0\n\tfor i in range(len(xs)):\n\t\tt = t {0} xs[i]\n\treturn t\n',
	'def {n}({h}) -> int:\n\treturn xs[a] {0} b\n',
	'def {n}({h}) -> int:\n\tif a {1} 0 and a < len(xs):\n\t\treturn xs[a] {0} b\n\treturn b\n',
	'def {n}({h}) -> int:\n\tif len(xs) > 0:\n\t\treturn xs[0] {0} xs[len(xs) - 1]\n\treturn 0\n',
	'def {n}({h}) -> int:\n\treturn xs[-1] {0} a\n',
	'def {n}({h}) -> int:\n\tt = 0\n\tfor i in range(len(xs) - 1, -1, -1):\n\t\tt = t {0} xs[i]\n\t\tif t {1} a:\n\t\t\tbreak\n\treturn t\n',
	'def {n}({h}) -> int:\n\tys = [a, b, a {0} b]\n\tfor y in ys:\n\t\tif y {1} 0:\n\t\t\ty = 0\n\treturn ys[0] + ys[1] + ys[2]\n',
	# len in arithmetic and comparisons
	'def {n}({h}) -> int:\n\tif len(xs) {1} a:\n\t\treturn 1\n\treturn len(xs) {0} b\n',
	'def {n}({h}) -> int:\n\tn = len(xs)\n\tif n - a {1} 0:\n\t\treturn n\n\treturn n {0} b\n',
	'def {n}({h}) -> bool:\n\treturn len(xs) - a {1} b\n',
	# membership
	'def {n}({h}) -> int:\n\tif a in xs and b not in xs:\n\t\treturn 1\n\tif a {1} b or a in xs:\n\t\treturn 2\n\treturn 3\n',
	# local lists: literal, append, item assignment
	'def {n}({h}) -> int:\n\tys = [a, b {0} 1]\n\tys.append(a {0} b)\n\treturn ys[2] - ys[0] + len(ys)\n',
	'def {n}({h}) -> int:\n\tys = [a, b, 0]\n\tys[2] = a {0} b\n\tys[0] = ys[1]\n\treturn ys[0] + ys[2]\n',
	'def {n}({h}) -> int:\n\tys: list[int] = []\n\ti = 0\n\twhile i < 3:\n\t\tys.append(i {0} a)\n\t\ti += 1\n\treturn ys[1] + len(ys)\n',
	'def {n}({h}) -> int:\n\tys: list[int] = []\n\tfor x in xs:\n\t\tif x {1} a:\n\t\t\tys.append(x {0} b)\n\tt = 0\n\tfor y in ys:\n\t\tt += y\n\treturn t + len(ys)\n',
	# fill idiom
	'def {n}({h}) -> int:\n\tys = [a] * 3\n\tys[1] = b\n\treturn (ys[0] {0} ys[1]) - ys[2] + len(ys)\n',
	'def {n}({h}) -> int:\n\tn = 2 if c else 3\n\tys: list[int] = [0] * n\n\tfor i in range(n):\n\t\tys[i] = i {0} a\n\treturn ys[n - 1] + len(ys)\n',
	'def {n}({h}) -> int:\n\tys = [b] * (len(xs) + 1)\n\tt = 0\n\tfor y in ys:\n\t\tt = t {0} y\n\treturn t + len(ys)\n',
	# comprehensions over range() with a start and a step
	'def {n}({h}) -> int:\n\tys = [i {0} a for i in range(1, 4)]\n\treturn ys[0] + ys[2] + len(ys)\n',
	'def {n}({h}) -> int:\n\tn = 2 if c else 3\n\tys = [i {0} b for i in range(n)]\n\tzs = [i for i in range(1, n) if i {1} a]\n\treturn ys[n - 1] + len(ys) + len(zs)\n',
	'def {n}({h}) -> int:\n\tys = [i {0} a for i in range(3, 0, -1)]\n\tt = 0\n\tfor y in ys:\n\t\tt = t * 2 + y\n\treturn t + len(ys)\n',
	# comprehensions
	'def {n}({h}) -> int:\n\tys = [x {0} a for x in xs]\n\tt = 0\n\tfor y in ys:\n\t\tt += y\n\treturn t\n',
	'def {n}({h}) -> int:\n\tys = [x {0} a for x in xs if x {1} b]\n\treturn len(ys) + (ys[0] if len(ys) > 0 else 0)\n',
]
# classes: {N} is the capitalised function name (class names must be unique inside a batch)
CLASS_TEMPLATES = [
	# constructor, pure method, mutating method, field read
	'class {N}K:\n\tf: int\n\tg: int\n\n\tdef __init__(self, p: int, q: int) -> None:\n\t\tself.f = p\n\t\tself.g = q {0} 1\n\n\tdef m(self, r: int) -> int:\n\t\treturn self.f {0} r\n\n\tdef bump(self, r: int) -> None:\n\t\tself.g = self.g + r\n\t\tif r {1} 0:\n\t\t\tself.f = 0\n\ndef {n}({h}) -> int:\n\to = {N}K(a, b)\n\to.bump(d)\n\tt = o.m(d)\n\treturn t + o.g\n',
	# a field computed from another field, in declaration order
	'class {N}K:\n\tf: int\n\tg: int\n\n\tdef __init__(self, p: int, q: int) -> None:\n\t\tself.f = p {0} 1\n\t\tself.g = self.f {0} q\n\n\tdef m(self) -> int:\n\t\treturn self.g - self.f\n\ndef {n}({h}) -> int:\n\to = {N}K(a, b)\n\treturn o.m() + o.g\n',
	# inheritance: base constructor call, overriding method, inherited method
	'class {N}K:\n\tf: int\n\n\tdef __init__(self, p: int) -> None:\n\t\tself.f = p\n\n\tdef m(self, r: int) -> int:\n\t\treturn self.f {0} r\n\n\tdef k(self) -> int:\n\t\treturn self.f + 1\n\nclass {N}L({N}K):\n\tdef __init__(self, p: int, q: int) -> None:\n\t\tsuper().__init__(p {0} q)\n\n\tdef m(self, r: int) -> int:\n\t\treturn self.f - r\n\ndef {n}({h}) -> int:\n\to = {N}K(a)\n\tl = {N}L(b, d)\n\treturn o.m(d) + l.m(d) + l.k()\n',
	# a bool field, a method with a default argument, a method calling another method, field stores from outside
	'class {N}K:\n\tf: int\n\ton: bool\n\n\tdef __init__(self, p: int, on: bool) -> None:\n\t\tself.f = p\n\t\tself.on = on\n\n\tdef m(self, r: int = 2) -> int:\n\t\tif self.on:\n\t\t\treturn self.f {0} r\n\t\treturn r\n\n\tdef n(self) -> int:\n\t\treturn self.m() + self.m(3)\n\ndef {n}({h}) -> int:\n\to = {N}K(a, c)\n\tx = o.n()\n\to.f = b\n\to.on = a {1} d\n\treturn x + o.m(d)\n',
	# a mutating method called in a loop, two objects
	'class {N}K:\n\tt: int\n\n\tdef __init__(self, p: int) -> None:\n\t\tself.t = p\n\n\tdef add(self, r: int) -> None:\n\t\tif r {1} 0:\n\t\t\tself.t = self.t {0} r\n\ndef {n}({h}) -> int:\n\to = {N}K(a)\n\tu = {N}K(b)\n\tfor i in range(3):\n\t\to.add(i + d)\n\t\tu.add(i)\n\treturn o.t - u.t\n',
	# class method factory, property, objects passed to and returned from functions
	'class {N}K:\n\tf: int\n\n\tdef __init__(self, p: int) -> None:\n\t\tself.f = p\n\n\tdef m(self, r: int) -> int:\n\t\treturn self.f {0} r\n\n\t@classmethod\n\tdef make(cls, p: int) -> \'{N}K\':\n\t\treturn cls(p {0} 1)\n\n\t@property\n\tdef twice(self) -> int:\n\t\treturn self.f * 2\n\ndef {n}_h(o: {N}K, r: int) -> int:\n\tif r {1} 0:\n\t\treturn o.m(r) + o.twice\n\treturn o.twice\n\ndef {n}_k(a: int) -> {N}K:\n\treturn {N}K(a)\n\ndef {n}({h}) -> int:\n\to = {n}_k(a)\n\tk = {N}K.make(b)\n\treturn {n}_h(o, d) + k.f\n',
	# inherited class method and property on a derived object
	'class {N}K:\n\tf: int\n\n\tdef __init__(self, p: int) -> None:\n\t\tself.f = p\n\n\t@property\n\tdef half(self) -> int:\n\t\treturn self.f >> 1 if self.f {1} 0 else 0\n\nclass {N}L({N}K):\n\tg: int\n\n\tdef __init__(self, p: int, q: int) -> None:\n\t\tsuper().__init__(p)\n\t\tself.g = q\n\n\tdef sum(self) -> int:\n\t\treturn self.half {0} self.g\n\ndef {n}({h}) -> int:\n\tl = {N}L(a, b)\n\treturn l.sum() + l.half\n',
	# protected / private members declared ahead of a public one that is derived from them
	'class {N}K:\n\t_r: int\n\t__s: int\n\tt: int\n\n\tdef __init__(self, p: int, q: int) -> None:\n\t\tself._r = q\n\t\tself.__s = p {0} 1\n\t\tself.t = self._r {0} self.__s\n\n\tdef m(self) -> int:\n\t\treturn self.t - self._r\n\ndef {n}({h}) -> int:\n\to = {N}K(a, b)\n\treturn o.m() + o.t\n',
	# enums: members as values, comparisons, a helper returning an enum, folded member values
	'from enum import Enum\n\nclass {N}E(Enum):\n\tA = 1\n\tB = 2\n\tC = 4\n\ndef {n}_h(c: bool, a: int) -> {N}E:\n\tif c:\n\t\treturn {N}E.A\n\treturn {N}E.B if a {1} 0 else {N}E.C\n\ndef {n}({h}) -> int:\n\te = {n}_h(c, a)\n\tt = 0\n\tif e == {N}E.A:\n\t\tt = 1\n\telif e != {N}E.B:\n\t\tt = 2\n\tu = {N}E.C\n\treturn (t {0} {N}E.B.value) + (3 if e == u else d)\n',
	# constructor that updates a field after storing it, then derives a second field from it
	'class {N}K:\n\tf: int\n\tg: int\n\n\tdef __init__(self, p: int, q: int) -> None:\n\t\tself.f = p\n\t\tself.f += 1\n\t\tself.g = self.f {0} q\n\ndef {n}({h}) -> int:\n\to = {N}K(a, b)\n\treturn o.g\n',
	# a field declared after the field that is derived from it
	'class {N}K:\n\tg: int\n\tf: int\n\n\tdef __init__(self, p: int, q: int) -> None:\n\t\tself.f = p\n\t\tself.g = self.f {0} q\n\ndef {n}({h}) -> int:\n\to = {N}K(a, b)\n\treturn o.g + o.f\n',
	# a base-class method that calls an overridden method
	'class {N}K:\n\tf: int\n\n\tdef __init__(self, p: int) -> None:\n\t\tself.f = p\n\n\tdef m(self) -> int:\n\t\treturn self.f\n\n\tdef twice(self) -> int:\n\t\treturn self.m() {0} self.m()\n\nclass {N}L({N}K):\n\tdef __init__(self, p: int) -> None:\n\t\tsuper().__init__(p)\n\n\tdef m(self) -> int:\n\t\treturn self.f + 1\n\ndef {n}({h}) -> int:\n\tl = {N}L(a)\n\treturn l.twice()\n',
]
AUG = ['+', '-', '*', '%', '<<', '>>', '&', '|', '^']


def statement_shapes(tier: str, seed: int) -> list:
	"""[(category, source with {n} placeholder)]"""
	rnd = random.Random(seed + 1)
	combos = list(itertools.product(ARITH + BITS, CMP, CMP, AUG))
	out = []
	for ti, tmpl in enumerate(STATEMENT_TEMPLATES + CALL_TEMPLATES):
		picks = rnd.sample(combos, 400 if tier == 'thorough' else 24)
		seen = set()
		for c in picks:
			src = tmpl.replace('{h}', HEAD)
			for i, v in enumerate(c):
				src = src.replace('{%d}' % i, v)
			if src not in seen:
				seen.add(src)
				out.append(('statement' if ti < len(STATEMENT_TEMPLATES) else 'call', src))
	ccombos = list(itertools.product(['+', '-', '&', '|', '^'], CMP))
	for tmpl in CLASS_TEMPLATES:
		seen = set()
		for c in rnd.sample(ccombos, 30 if tier == 'thorough' else 4):
			src = tmpl.replace('{h}', HEAD)
			for i, v in enumerate(c):
				src = src.replace('{%d}' % i, v)
			if src not in seen:
				seen.add(src)
				out.append(('class', src))
	lcombos = list(itertools.product(['+', '-', '&', '|', '^'], CMP, CMP))  # no products of two symbolic values inside unrolled loops (solver cost)
	for tmpl in LIST_TEMPLATES:
		seen = set()
		for c in rnd.sample(lcombos, 120 if tier == 'thorough' else 8):
			src = tmpl.replace('{h}', LIST_HEAD)
			for i, v in enumerate(c):
				src = src.replace('{%d}' % i, v)
			if src not in seen:
				seen.add(src)
				out.append(('list', src))
	return out


def programs(tier: str, seed: int) -> list:
	"""[(name, category, source)] one function (plus helpers) per entry"""
	out = []
	valid = []
	for cat, e in expression_shapes(tier, seed):
		try:
			ast.parse(e, mode='eval')
			valid.append((cat, e))
		except SyntaxError:
			pass  # e.g. `a + not b` is not Python
	for i, (cat, e) in enumerate(valid):
		name = f'e{i}'
		out.append((name, cat, expr_function(name, e)))
	for i, (cat, src) in enumerate(statement_shapes(tier, seed)):
		name = f's{i}'
		out.append((name, cat, src.replace('{n}', name).replace('{N}', name.capitalize())))
	return out
