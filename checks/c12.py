"""C12 — the grammar engine reproduces itself and its compiled rule files."""
from vlib.runner import Job, Report, class_splits

H = 'harness.c12_grammar'


def run(rep: Report, tier: str, only=None) -> None:
	thorough = tier == 'thorough'
	t = 2400 if thorough else 280
	n = 4 if thorough else 3
	jobs: list[Job] = []
	for kind, classes in [('string', ['a', '\\', '/', '|', '(', ' ', 'n']), ('regexp', ['a', '\\', '/', '+', '[', ']', 't'])]:
		for c in class_splits(classes, 1, n):
			jobs.append(Job('O1+3.terminal', H, 'terminal_law', {'kind': kind, **c}, t, 'S', f'{kind} terminal text <= {n} over {classes!r} (grammar tokenizer symbolic, parser per realised token list)', ('backslash',)))
	nslots = 14 if thorough else 9
	for tmpl in range(8):
		jobs.append(Job('O2.shapes', H, 'shape_law', {'template': tmpl, 'nslots': nslots, 'sentences': tmpl in (4, 5)}, t, 'F',
			f'rule template #{tmpl} of 8 with up to three slots over {nslots} sub-expressions (symbol, string, regexp, groups, alternatives, * + ?, [..], nested), three unwrap markers; ' + ('sentence equivalence on 47 short sentences' if tmpl in (4, 5) else 'structural round trip'), ('round_trip',)))
	if only:
		jobs = [j for j in jobs if j.obligation in only or j.obligation.split('.')[0] in only]
	rep.functions = ['Rules.from_ast / ASTSerializer.*', 'Prettier.*', 'Pattern.make', 'SyntaxParser(gram_rules(), gram_tokenizer()).parse', 'gram_check.App.render_rules', 'ASTTree.pretty/simplify', 'Rules.keywords/unwrap_by/__getitem__']
	rep.bounds = {'terminal text': f'symbolic str <= {n}', 'shapes': f'8 templates x {nslots}^(1..3) slot fillings x 3 unwrap markers'}
	rep.assumptions = [
		'rule-set equality is structural after folding groups that change neither language nor trees (single-entry / nested non-repeating AND groups, nested non-repeating OR in OR)',
		'terminal texts contain no single quote (the shipped grammars escape it; the rule-file renderer only repairs that spelling) and no line break',
		'compiled files are compared from the `Rules.from_ast(` call on, modulo trailing blank lines (gram_rules.py carries a hand-written docstring)',
		'parser executed natively on realised token lists (see C11)',
	]
	rep.outside = ['grammars beyond the shape templates', 'terminals with single quotes', 'the deprecated recursive_of/_step_of helpers']
	rep.run_jobs(jobs)
	if not only or 'O4' in only or 'O4-5' in only:
		rep.run_closed('O4-5.fixed_points', H, 'fixed_points_closed', {}, 'gram.lark parsed with the built-in rules gives them back; compiling gram.lark / py_gram.lark gives the checked-in modules; shipped rule sets survive print-and-parse (closed)')
	rep.check_recorded()
