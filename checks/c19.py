"""C19 — the dependency container follows its reference model (CrossHair over short operation histories)."""
from vlib.runner import Job, Report

H = 'harness.c19_di'
NOPS = 48  # checked against the harness at run time (see evidence: ops)


def run(rep: Report, tier: str, only=None) -> None:
	thorough = tier == 'thorough'
	t = 3000 if thorough else 280
	jobs: list[Job] = []
	func = 'history4' if thorough else 'history3'
	# thorough: 4 operations, first one restricted to 16 operations that change c0 / c1 or combine them (an operation on the
	# not yet existing combined container, or an invoke, as the very first step adds nothing over the 3-operation tier)
	firsts = [o for o in range(NOPS) if o in (0, 1, 2, 3, 4, 5, 7, 12, 13, 14, 18, 19, 20, 24, 25, 26)] if thorough else list(range(NOPS))
	for o1 in firsts:
		jobs.append(Job('O2.history', H, func, {'o1': o1}, t, 'F', f'all histories of {4 if thorough else 3} operations over {NOPS} operation codes (first operation fixed per process' + (', second operation one of the 20 state-changing ones' if thorough else '') + '), then a full observation sweep', ('combine', 'rebind', 'invoke_ok', 'invoke_rejected', 'resolve_rejected')))
	if only:
		jobs = [j for j in jobs if j.obligation in only or j.obligation.split('.')[0] in only]
	rep.functions = ['DI.bind/unbind/rebind/resolve/can_resolve/invoke/_clone/combine', 'LazyDI.instantiate/bind/unbind/resolve/can_resolve/_clone/combine', 'lang.module.to_fullyname/load_module_path']
	rep.bounds = {'universe': '2 symbols (one used through a generic alias), 2 factories each (class, function, class with a dependency), 3 containers (two LazyDI with by-name and direct lazy definitions, one produced by combine in either direction), 3 invoke targets x 2 argument vectors',
		'history': f'{4 if thorough else 3} operations, every operation code, followed by can_resolve/resolve of every symbol on every container (twice when an instance exists)'}
	rep.assumptions = [
		'finite case split (F): the operation codes are symbolic ints, every path is one concrete history; the solver prunes and exhausts the product',
		'bind is only issued for a symbol the model holds unregistered (otherwise rebind): binding over an unresolved lazy definition is left unspecified by the property',
		'reference model: per container symbol -> (factory, instance); combine = left overlaid by right, instances follow their bindings; invoke curries the leading resolvable annotated parameters and demands the rest positionally with matching types',
	]
	rep.outside = ['histories longer than the bound', 'factories sharing module and qualified name (the annotation cache is keyed by it)', 'callable-object factories (to_fullyname needs __qualname__)', 'combine of unrelated container classes']
	rep.run_jobs(jobs)
	rep.check_recorded()
