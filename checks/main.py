"""Entry point: dispatches to checks/<id>.py (each defines run(report, tier))."""
import argparse
import importlib
import json
import os
import sys

from vlib import runner


def main() -> None:
	ap = argparse.ArgumentParser()
	ap.add_argument('prop')
	ap.add_argument('--tier', default=os.environ.get('VERIF_TIER', 'quick'), choices=['quick', 'thorough'])
	ap.add_argument('--replay')
	ap.add_argument('--only', help='comma separated obligation names (debugging)')
	a = ap.parse_args()
	prop = a.prop.upper()
	if a.replay:
		with open(a.replay) as f:
			w = json.load(f)
		mod = importlib.import_module(f'checks.{prop.lower()}')
		if hasattr(mod, 'replay'):
			sys.exit(mod.replay(w))
		runner.ensure_venv()
		rp = runner.replay(w['module'], w['func'], w['args'], w.get('case', {}))
		print(json.dumps(rp, indent=1))
		if rp.get('reproduced'):
			print(f'VIOLATION property={prop} replay={a.replay}')
			sys.exit(1)
		sys.exit(0)
	mod = importlib.import_module(f'checks.{prop.lower()}')
	rep = runner.Report(prop, a.tier, getattr(mod, 'LEVEL', 'model_checking'))
	only = set(a.only.split(',')) if a.only else None
	mod.run(rep, a.tier, only)
	rep.finish()


if __name__ == '__main__':
	main()
