"""C17 — folding constant expressions gives the value Python gives (CrossHair kernels + direct QF_BVFP queries)."""
from vlib.runner import Job, Report, class_splits

H = 'harness.c17_evaluator'
LEVEL = 'model_checking'


def run(rep: Report, tier: str, only=None) -> None:
	thorough = tier == 'thorough'
	t = 1800 if thorough else 300
	bit_bound = 12 if thorough else 1 << 3
	jobs: list[Job] = []
	for op in ['+', '-', '*', '%']:
		jobs.append(Job('K1.int_binop', H, 'int_binop', {'op': op}, t, 'S', 'unbounded symbolic ints', ('value',)))
	for op in ['<<', '>>']:
		jobs.append(Job('K1.int_binop', H, 'int_binop', {'op': op, 'shift_max': 64}, t, 'S', 'unbounded symbolic int, shift count 0..64', ('value',)))
	for op in ['|', '^', '&']:
		jobs.append(Job('K1.int_binop', H, 'int_binop', {'op': op, 'bound': bit_bound}, t, 'S', f'|operand| < {bit_bound} for bitwise operators', ('value',)))
	groups = [['+', '-'], ['*', '%'], ['<<', '>>']]
	for g in groups:
		for o1 in g:
			for o2 in g:
				bound = {'bound': 1 << 10} if o1 in ('*', '%', '<<', '>>') or o2 in ('*', '%', '<<', '>>') else {}
				jobs.append(Job('K1.int_chain', H, 'int_chain', {'op': o1, 'op2': o2, 'shift_max': 8, **bound}, t, 'S', 'left fold of three operands, same precedence level' + (', |operand| < 1024, shifts 0..8' if bound else ', unbounded ints'), ('value',)))
	jobs.append(Job('K1.unary', H, 'unary_sign', {}, t, 'S', 'unbounded symbolic int, sign symbolic'))
	n_lit = 4 if thorough else 3
	lit_classes = ['0', '1', '9', 'x', 'X', 'a', 'F', '_'] if thorough else ['0', '1', 'x', 'X', 'a', 'F', '_']  # int(str) realises its argument: single characters, not classes
	for c in class_splits(lit_classes, 1, n_lit):
		jobs.append(Job('K3.integer_literal', H, 'integer_literal', c, t, 'S', f'literal text <= {n_lit} over {lit_classes} inside DEC_NUMBER / HEX_NUMBER', ('hex', 'value')))
	n_str = 5 if thorough else 4
	str_classes = ['"', "'", 'abcdefghijklmnopqrstuvwxyz ', '0123456789']
	for lq in range(3):
		for rq in range(3):
			jobs.append(Job('K4.string_concat', H, 'string_concat', {'classes': str_classes, 'n': n_str - 2, 'lq': lq, 'rq': rq}, t, 'S', f'quote kinds (", \', triple ") x symbolic contents <= {n_str - 2} over [" | \' | letters/blank | digits], no escapes', ('quote_in_content',)))
	jobs.append(Job('K4.escaped_concat', H, 'escaped_concat', {}, t, 'F', 'all pairs of 17 literals with escapes (escaped quote of the own kind at the start / end / alone, escaped backslash before the closing quote, other-kind quotes, \\n / \\t, empty, triple-quoted): the result text is a Python literal denoting the concatenation, or the evaluator refuses', ('value',)))
	for cast in ['int', 'float', 'str']:
		jobs.append(Job('K5.cast', H, 'cast_of_int', {'cast': cast, **({'bound': 200} if cast == 'str' else {})}, t, 'S', f'{cast}(<symbolic int>)' + (' |v| < 200 (decimal rendering is realised)' if cast == 'str' else ' unbounded'), ('value',)))
		jobs.append(Job('K5.cast', H, 'cast_of_string', {'cast': cast, 'classes': ['"', "'", '0123456789', '.', 'abc', ' -'], 'n': min(n_str, 4)}, t, 'S', f'{cast}(<literal text <= {min(n_str, 4)}>) plain quoted literal without escapes'))
	if only:
		jobs = [j for j in jobs if j.obligation in only or j.obligation.split('.')[0] in only]
	rep.functions = ['LiteralEvaluator._op_bin_each', 'LiteralEvaluator._calc', 'LiteralEvaluator._bitwise', 'LiteralEvaluator._allow_string', 'LiteralEvaluator._cat',
		'LiteralEvaluator.on_integer', 'LiteralEvaluator.on_factor', 'LiteralEvaluator.on_func_call']
	rep.bounds = {'ints': 'unbounded (mathematical) for + - * % and shifts (count <= 64); | ^ & through CrossHair only for |x| < 8 quick / 32 thorough (no bit-vector theory on mathematical ints) and through K2 on all signed 64-bit operands', 'literal text': f'<= {n_lit} (numbers) / <= {n_str} (strings)',
		'K2': 'signed 64-bit integer operands, finite binary64 float operands'}
	rep.assumptions = [
		'a handler exception is a refusal: Procedure wraps every handler exception into an Errors.Error (C07/C09 check that wrapping); only a different value violates C17',
		'expressions CPython itself cannot evaluate (division by zero, negative shift, non-numeric text) are outside the domain',
		'K2: CPython int/int true division is the correctly rounded quotient; binary128 intermediate gives the same rounding (2p+2)',
		'string kernels: literals without prefix and without escapes',
	]
	rep.outside = ['float o float chains beyond the single operations of K2 (CrossHair models floats as reals)', 'the text emitted by py2cpp.on_relay for enum values', 'string escapes, string prefixes']
	rep.extra['trusted_base'] = ['CrossHair 0.0.110', 'z3 5.1.0', 'cvc5 1.4.0 (fp-exp)', 'smt/specialise.py abstract interpreter of the evaluator source', 'harness reference models']
	k2_thread = None
	if not only or 'K2' in only:
		import threading
		from smt import k2
		k2_thread = threading.Thread(target=k2.run, args=(rep, tier))
		k2_thread.start()  # the direct SMT queries run next to the CrossHair jobs
	rep.run_jobs(jobs)
	if k2_thread:
		k2_thread.join()
	if not only or 'K6' in only or 'K7' in only:
		rep.run_closed('K6.enum_composition', 'harness.c17_enum', 'enum_values_closed', {}, '25 filled four-enum modules (member references, cross-enum references, two nested enums sharing a short name) through the real pipeline: LiteralEvaluator.exec of 11 `.value` references each vs CPython (closed)')
		rep.run_closed('K6.enum_two_modules', 'harness.c17_enum', 'enum_two_modules_closed', {}, 'one run over two modules declaring a same-named enum with different member values (int shift, float division, string concatenation), both transpile orders: the literal emitted for `.value` is the value CPython computes for that module (closed)')
		rep.run_closed('K7.cast_forms', 'harness.c17_enum', 'cast_forms_closed', {}, '39 cast expressions (extra / keyword arguments, bases, triple-quoted / prefixed / escaped string literals, signs, blanks, underscores, exponents, nested casts) as enum member values through the real pipeline: the folded `.value` literal equals the CPython value with equal type, or the pipeline raises an application error; where CPython raises, the pipeline must refuse (closed)')
	rep.check_recorded()


def replay(w: dict) -> int:
	if w.get('kind') == 'k2':
		from vlib import prelude  # noqa: F401
		from smt import k2
		rc = k2.replay_file(w)
		if rc:
			print(f'VIOLATION property=C17 replay=(given file)')
		return rc
	from vlib import runner
	rp = runner.replay(w['module'], w['func'], w['args'], w.get('case', {}))
	print(rp)
	return 1 if rp.get('reproduced') else 0
