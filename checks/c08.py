"""C08 — consistent renaming commutes with transpilation: name-handling kernels (CrossHair, symbolic identifiers)."""
from vlib.runner import Job, Report

H = 'harness.c08_names'


def run(rep: Report, tier: str, only=None) -> None:
	thorough = tier == 'thorough'
	t = 2400 if thorough else 280
	n = 2  # identifiers of length 3 multiply the paths by ~18 per symbolic identifier (measured 1 s/path): the thorough tier widens the case split instead
	firsts = ['a', 'b', '_', 'ab', 'a_', '_1', 'b1', '__'] if not thorough else [x + y for x in 'ab_' for y in ['', 'a', 'b', '_', '1']]
	jobs = [Job('O2.relativefy', H, 'relativefy_law', {}, t, 'F', 'three identifiers out of 15 (int-selected): DSN.relativefy / EntryPath.relativefy for element-aligned prefixes whose text does not recur later', ('shared_characters',))]
	for f in firsts:
		jobs.append(Job('O1.dsn', H, 'dsn_law', {'n': n, 'p': f}, t, 'S', f'first identifier {f!r} (case split), two symbolic identifiers <= {n} over [a b _ 1]: join/elements/elem_counts/left/right/shift/root/parent vs the list of elements', ('overlapping_names',)))
		jobs.append(Job('O3.module_dsn', H, 'module_dsn_law', {'n': n, 'p': f}, t, 'S', f'module path p.q and local names r, p (p = {f!r} per case, q, r symbolic <= {n}): ModuleDSN.full_joined/parsed/expanded/expand_elements/join/identify', ('module_dsn',)))
		jobs.append(Job('O4.entry_path', H, 'entry_path_law', {'n': n, 'p': f}, t, 'S', f'three tags (first {f!r} per case, two symbolic <= {n}): EntryPath.join/elements/first/last/parent_tag/identify/shift/contains/joined', ('entry_path',)))
	jobs.append(Job('O5.pipeline', 'harness.c08_pipeline', 'nested_renaming_law', {'template': 3}, t, 'F', 'nested-class / block-local template (a class nested in a class used through inferred locals and a list, a local first assigned inside a nested block next to a function-level local) under 60 renamings (nested class named after its outer class, outer class a prefix of the nested one, block local that extends the name of the outer local)', ('renaming',)))
	jobs.append(Job('O5.pipeline', 'harness.c08_pipeline', 'ctor_renaming_law', {'template': 2}, t, 'F', 'constructor / sort / factory template (constructor writing through another parameter and calling a method, list.sort with a key lambda, a method returning a user class) under 144 renamings (names starting with self, ending in __init__, one-letter lambda parameters that occur inside other words, class names starting with Iterator / ItemsView)', ('renaming',)))
	jobs.append(Job('O5.pipeline', 'harness.c08_pipeline', 'enum_renaming_law', {'template': 1}, t, 'F', 'enum template (three members, .value references, member reference) under 54 renamings (members that are suffixes / prefixes of each other, reordered spellings)', ('renaming',)))
	for g0 in range(16):
		jobs.append(Job('O5.pipeline', 'harness.c08_pipeline', 'renaming_law', {'g0': g0}, t, 'F', 'template program (classes, field, methods, class method factory, enum, function, lambda + closure capturing two parameters, inferred locals) under 576 renamings from adversarial name pools (prefix / suffix / order / underscore relations): transpile(r(P)) == r(transpile(P)) through the real pipeline', ('renaming',)))
	if only:
		jobs = [j for j in jobs if j.obligation in only or j.obligation.split('.')[0] in only]
	rep.functions = ['DSN.join/elements/elem_counts/left/right/shift/root/parent/relativefy', 'ModuleDSN.full_joined/local_joined/parsed/expanded/expand_elements/identify/join', 'EntryPath.join/identify/elements/first/last/parent_tag/shift/contains/joined/relativefy']
	rep.bounds = {'identifiers': f'first identifier from a case split ({len(firsts)} values), two symbolic identifiers of length <= {n} over [a b _ 1] (first character not a digit); the solver may make one a prefix / suffix / infix / copy of another'}
	rep.assumptions = ['relativefy: the prefix text does not recur in the remainder (a measured deviation outside every caller\'s domain, DESIGN.md C08)']
	rep.outside = ['the metamorphic relation beyond the one template program of O5', 'PatternParser / CppViewHelper regex helpers (CrossHair\'s regex model did not close on them within budget)', 'keyword / builtin collisions, i18n alias tables']
	rep.run_jobs(jobs)
	rep.check_recorded()
