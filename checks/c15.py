"""C15 — the stored form of a syntax tree restores an identical tree (CrossHair on Serialization + closed JSON-layer obligations)."""
from vlib.runner import Job, Report

H = 'harness.c15_serial'


def run(rep: Report, tier: str, only=None) -> None:
	thorough = tier == 'thorough'
	t = 1500 if thorough else 200
	n = 3 if thorough else 2
	jobs: list[Job] = []
	for shape in range(5):
		jobs.append(Job('O1-3.positions', H, 'round_trip_positions', {'shape': shape}, t, 'S',
			f'shape #{shape} of 5 (<= 3 levels, empty slots, zero-child tree, shared token, default Meta); 8 unbounded non-negative position ints (each independently 0 or positive), position-presence and meta.empty flags symbolic',
			('token_without_position', 'meta_empty', 'token_position_kept')))
		jobs.append(Job('O1-3.names', H, 'round_trip_names', {'shape': shape, 'n': n}, t, 'S',
			f'shape #{shape} of 5; token value symbolic str <= {n} over [a, double quote, backslash], token / tree name one character over [T, c] (lark.Token construction realises strings: finite alphabets)', ('empty_value', 'same_names')))
	if only:
		jobs = [j for j in jobs if j.obligation in only or j.obligation.split('.')[0] in only]
	rep.functions = ['Serialization.dumps/__dumps/loads/__loads', 'EntryOfLark.name/value/has_child/children/is_terminal/is_empty/source_map', 'EntryStored.save/load', 'ASTFinder.full_pathfy']
	rep.bounds = {'strings': f'symbolic str, length <= {n} (names non-empty)', 'positions': 'unbounded non-negative ints, independently 0 or positive', 'shapes': '5 shape templates, <= 7 entries'}
	rep.assumptions = [
		'trees are made of lark.Tree / lark.Token / None only (what Lark produces)',
		'JSON text layer: the stdlib json codec is exercised on concrete representative strings (CrossHair cannot close json on symbolic strings, DESIGN.md C06/C15) and otherwise assumed correct',
	]
	rep.outside = ['trees beyond the shape templates', 'node classes derived from restored real parses (needs Lark)']
	rep.run_jobs(jobs)
	if not only or 'O4' in only:
		rep.run_closed('O4.json_layer', H, 'json_layer_closed', {}, '5 shapes x 17 representative strings x 4 position vectors through EntryStored.save/load (closed)')
		rep.run_closed('O5.truncation', H, 'truncation_closed', {}, 'every truncation offset of the stored form of 5 shapes: load raises or restores the original (closed; shared with C05 sentence 3)')
	rep.check_recorded()
