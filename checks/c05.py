"""C05 — on-disk caches never change the result: step laws over the real key computations and cache classes (CrossHair), closed truncation obligations, closed edit/run histories through the real pipeline."""
from vlib.runner import Job, Report

H = 'harness.c05_cache'


def run(rep: Report, tier: str, only=None) -> None:
	t = 600 if tier == 'thorough' else 200
	jobs = [
		Job('O1.provider', H, 'provider_law', {}, t, 'F', 'CacheProvider.get: caching enabled / cache file present / asked twice (symbolic booleans); environment recorded', ('disabled', 'warm', 'cold')),
		Job('O1.persistor', H, 'persistor_law', {}, t, 'F', 'SymbolDBPersistor.stored / store / restore: caching enabled / module on disk / file present (symbolic booleans); environment recorded', ('disabled', 'enabled')),
	]
	K = 'harness.c05_keys'
	jobs += [
		Job('O3.tree_key', K, 'tree_key_law', {}, t, 'S', 'SyntaxParserOfLark.__call__ twice over a store keyed by (cache key, identity): mtimes of the source and of the grammar are symbolic floats in [0, 4e9); str() of a float modelled as injective', ('source-edited', 'grammar-edited', 'unchanged', 'served-from-cache')),
		Job('O3.proxy_key', K, 'proxy_key_law', {}, t, 'F', 'CacheProvider.get / CachedProxy in two consecutive processes over an in-memory file system: 3 cache keys x 3 source mtimes x 2 grammar mtimes each, with / without format, base directory without / with further hyphens; a stored instance is served only for the same key and identity, and the file of an older identity is evicted', ('same', 'different', 'evicted')),
		Job('O3.symbols_key.near', K, 'symbols_key_law', {'far': False}, t, 'F', 'Module.identity over every acyclic import graph of 4 modules (64) x edited module (4): the edited module is the module itself or a direct import', ('dist0', 'dist1')),
		Job('O3.symbols_key.far', K, 'symbols_key_law', {'far': True}, t, 'F', 'Module.identity over every acyclic import graph of 4 modules (64) x edited module (4): the edited module is imported at distance >= 2; a failing step is demonstrated through the real pipeline before it is reported', ('dist2',)),
	]
	if only:
		jobs = [j for j in jobs if j.obligation in only or j.obligation.split('.')[0] in only]
	rep.functions = ['CacheProvider.get', 'CachedProxy.get/gen_cache_path/cache_exists/save_cache/find_oldest/load_cache', 'CachedDummy.get', 'SymbolDBPersistor.stored/store/restore/_can_store/_can_restore/_store/_restore/_find_oldest', 'EntryStored.load', 'Serialization.loads']
	rep.bounds = {'environment': 'all combinations of the environment booleans', 'truncation': 'every offset of the stored form of 5 tree shapes / of a two-row symbol table'}
	rep.assumptions = [
		'environment stubs: os / glob / open as seen by cache.py and persistent.py, the source loader and the module are recording stubs returning the symbolic booleans',
		'"no cache file is read or written" = no open / unlink / makedirs / glob / source load recorded (existence probes through os.path.exists are not counted as reads)',
	]
	rep.outside = ['md5 collisions (proxy_key_law runs the real md5 on the listed identities only)', 'import graphs of more than 4 modules, cyclic imports', 'histories beyond the listed families', 'the pickled Lark parser cache file content', 'edits within one long-running process (FileLoader memoises mtime / hash per process)']
	rep.run_jobs(jobs)
	if not only or 'O2' in only:
		rep.run_closed('O2.truncated_tree', 'harness.c15_serial', 'truncation_closed', {}, 'every truncation offset of the stored syntax tree (5 shapes): EntryStored.load raises or restores the original (closed)')
		rep.run_closed('O2.truncated_symbols', H, 'truncated_symbols_closed', {}, 'every truncation offset of a stored symbol table: SymbolDBPersistor.restore raises (closed)')
	if not only or 'O4' in only:
		HH = 'harness.c05_histories'
		base = ['edit', 'back', 'disabled', 'clear', 'subsecond', 'backwards', 'first-disabled', 'mtime-reuse']
		plan = [(shape, [f]) for shape in ('chain3', 'fan3', 'diamond') for f in base] + [('chain3', ['two']), ('chain3', ['two-one-run'])]
		if tier == 'thorough':
			plan += [(shape, [f]) for shape in ('fan3', 'diamond', 'chain4') for f in ('two', 'two-one-run')] + [('chain4', [f]) for f in base]
		rep.run_closed_many([(f'O4.histories.{shape}.{fam[0]}', HH, 'histories_closed', {'shape': shape, 'families': fam},
			f'module graph {shape}: every history of the family {fam[0]!r} over all choices of the edited module(s) through the real pipeline and the real cache files on a scratch file system; every run compared with the same run on an empty cache directory (closed)') for shape, fam in plan])
	rep.check_recorded()
