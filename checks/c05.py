"""C05 — on-disk caches never change the result: sentences 2 and 3 (CrossHair over environment booleans + closed truncation obligations)."""
from vlib.runner import Job, Report

H = 'harness.c05_cache'


def run(rep: Report, tier: str, only=None) -> None:
	t = 600 if tier == 'thorough' else 200
	jobs = [
		Job('O1.provider', H, 'provider_law', {}, t, 'F', 'CacheProvider.get: caching enabled / cache file present / asked twice (symbolic booleans); environment recorded', ('disabled', 'warm', 'cold')),
		Job('O1.persistor', H, 'persistor_law', {}, t, 'F', 'SymbolDBPersistor.stored / store / restore: caching enabled / module on disk / file present (symbolic booleans); environment recorded', ('disabled', 'enabled')),
	]
	if only:
		jobs = [j for j in jobs if j.obligation in only or j.obligation.split('.')[0] in only]
	rep.functions = ['CacheProvider.get', 'CachedProxy.get/gen_cache_path/cache_exists/save_cache/find_oldest/load_cache', 'CachedDummy.get', 'SymbolDBPersistor.stored/store/restore/_can_store/_can_restore/_store/_restore/_find_oldest', 'EntryStored.load', 'Serialization.loads']
	rep.bounds = {'environment': 'all combinations of the environment booleans', 'truncation': 'every offset of the stored form of 5 tree shapes / of a two-row symbol table'}
	rep.assumptions = [
		'environment stubs: os / glob / open as seen by cache.py and persistent.py, the source loader and the module are recording stubs returning the symbolic booleans',
		'"no cache file is read or written" = no open / unlink / makedirs / glob / source load recorded (existence probes through os.path.exists are not counted as reads)',
	]
	rep.outside = ['sentence 1: warm == cold over edit histories (needs a file system, md5 identities and repeated pipeline runs)', 'the pickled Lark parser cache']
	rep.run_jobs(jobs)
	if not only or 'O2' in only:
		rep.run_closed('O2.truncated_tree', 'harness.c15_serial', 'truncation_closed', {}, 'every truncation offset of the stored syntax tree (5 shapes): EntryStored.load raises or restores the original (closed)')
		rep.run_closed('O2.truncated_symbols', H, 'truncated_symbols_closed', {}, 'every truncation offset of a stored symbol table: SymbolDBPersistor.restore raises (closed)')
	rep.check_recorded()
