"""C10 — tree addressing is a bijection and node resolution is order-independent (CrossHair over tree shapes / query orders)."""
from vlib.runner import Job, Report

H = 'harness.c10_tree'


def n_seqs(tags: int, maxlen: int) -> int:
	return sum(tags ** n for n in range(maxlen + 1))


def run(rep: Report, tier: str, only=None) -> None:
	thorough = tier == 'thorough'
	t = 2400 if thorough else 280
	jobs: list[Job] = []
	configs = [({'tags': ['a', 'b', None], 'kids': 3, 'grand': 2, 'wide': 0}, 'root with <= 3 children over tags {a, b, empty}, <= 2 grandchildren under the first two, optional great-grandchild'),
		({'tags': ['a', 'b', None], 'kids': 2, 'grand': 1, 'wide': 9}, 'same with nine extra same-tag leaves under the root (two-digit child indices)')]
	if thorough:
		configs = [({'tags': ['a', 'b', 'c', None], 'kids': 4, 'grand': 2, 'wide': 0}, 'root with <= 4 children over tags {a, b, c, empty}, <= 2 grandchildren under the first two, optional great-grandchild'),
			({'tags': ['a', 'b', None], 'kids': 3, 'grand': 2, 'wide': 9}, 'root with <= 3 children + nine extra same-tag leaves (two-digit indices), <= 2 grandchildren')]
	for cfg, bound in configs:
		nk = n_seqs(len(cfg['tags']), cfg['kids'])
		for kc in range(nk):
			jobs.append(Job('O1-3.tree', H, 'tree_laws', {**cfg, 'kids_code': kc}, t, 'F', bound, ('nontrivial', 'indexed', 'unmapped_parent') + (('two_digit_index',) if cfg['wide'] else ())))
	for v in range(6):
		jobs.append(Job('O4.order', H, 'order_law', {'kids_code': v}, t, 'F', '6 synthetic real-tag modules (function / closure / class with constructor, method, class method, nested closure), all pairs of 24 query-order permutations, interleaved children()/parent() queries', ('competing_classes',)))
	if only:
		jobs = [j for j in jobs if j.obligation in only or j.obligation.split('.')[0] in only]
	rep.functions = ['ASTFinder.full_pathfy/pluck/exists', 'EntryPath.join/identify/first/last/shift/de_identify/elements', 'DSN.join/elements/elem_counts', 'EntryCache.add/by/group_by/index_of/exists',
		'Nodes.by/parent/children/siblings/ancestor/id/exists', 'NodeResolver.resolve/can_resolve', 'Resolver.load/resolve', 'EntryOfLark.name/children/has_child/source', 'definition classes match_feature (O4)']
	rep.bounds = {'shape': configs[0][1] + ' | ' + configs[1][1], 'tags': 'int-selected (finite) - the dotted-path arithmetic on symbolic tag strings goes through re.sub in de_identify and did not close within budget (DESIGN.md C10)'}
	rep.assumptions = [
		'finite case split (F): the shape codes and permutation indices are symbolic ints decoded by comparison; every path is one concrete tree, the solver exhausts the product',
		'reference path rule: a child is addressed by its tag when no sibling shares it, else tag[index among all siblings] (EntryPath.identify docstring); empty slots are named __empty__',
		'O4: "the class the tree dictates" is what a fresh resolver answers for that path alone',
	]
	rep.outside = ['trees beyond the stated shape family', 'symbolic tag strings', 'Nodes.expand / values (C09)']
	rep.run_jobs(jobs)
	rep.check_recorded()
