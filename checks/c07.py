"""C07 — failures are always reported as tranp errors: normalisation kernels (CrossHair case analysis with environment stubs)."""
import sys

from vlib import runner
from vlib.runner import Job, Report

H = 'harness.c07_errors'


def run(rep: Report, tier: str, only=None) -> None:
	t = 600 if tier == 'thorough' else 200
	jobs = [
		Job('O1.parse_error', H, 'parse_error_law', {}, t, 'F', 'parser.parse raises one of 8 exceptions (UnexpectedToken, UnexpectedCharacters, UnexpectedEOF, DedentError, ValueError, RecursionError, KeyError, AssertionError) x module on disk / only in memory', ('on_disk', 'in_memory', 'syntax_error')),
		Job('O2.handler_error', H, 'handler_error_law', {}, t, 'F', 'a Procedure handler raises one of 10 exceptions (built-in, application error with node / text / no argument) at handler call 1..6 of a real parsed tree; rendering; reuse of the procedure', ('normalised',)),
		Job('O3.render', 'harness.c16_spans', 'render_law', {}, 3 * t, 'S', 'ErrorRender(Errors.NodeNotFound(node)).render() for a real node with a symbolic span or without any recorded position (line index -1)', ('position', 'no_position')),
	]
	P = 'harness.c07_pipeline'
	sys.path.insert(0, runner.VERIF)
	from harness.c07_shapes import SHAPES_N, BASE_TOKENS
	closed = []
	for s in range(SHAPES_N):
		m = 3 if s < 7 else 1
		for k in range(m):
			closed.append((f'O4.illtyped.t{s}', P, 'illtyped_closed', {'s': s, 'slice': [k, m]}, 'well-formed but ill-typed programs: template x 24 type annotations x 37 expressions (a template with one slot uses one pool) through the complete real pipeline (real Lark parser, every preprocessor, Py2Cpp) and ErrorRender (closed, enumerated)'))
	pool = 31 if tier == 'thorough' else 12
	step = 12 if tier == 'thorough' else 24
	for b, n in enumerate(BASE_TOKENS):
		for lo in range(0, n, step):
			closed.append((f'O5.mutation.b{b}', P, 'mutation_closed', {'base': b, 'range': [lo, min(lo + step, n)], 'pool': pool}, f'token-level mutations of a valid program ({n} tokens): delete / duplicate / swap-with-next at every token, replace every token by each of {pool} tokens (brackets, colon, comma, dot, newline + indentation changes, keywords, quotes); complete real pipeline and ErrorRender (closed, enumerated)'))
	for k in range(8):
		closed.append(('O6.ondisk', P, 'ondisk_closed', {'slice': [k, 8]}, '453 ill-typed programs (type / expression fillings of 11 templates + 6 hand-picked cyclic / destructuring programs) as a module on a scratch file system with the cache enabled, first run and second run (closed, enumerated)'))
	for k in range(2):
		closed.append(('O7.deep', P, 'deep_closed', {'slice': [k, 2]}, '26 deeply nested / very long inputs (brackets, parentheses, sums, attribute chains, unary signs up to 3000; 90 nested blocks; 400 elif; 600 nested calls): the pipeline returns with success or an application error that renders (closed, enumerated)'))
	for k in range(2):
		closed.append(('O8.interactive', P, 'interactive_closed', {'slice': [k, 2]}, 'the real Interactive.run with the terminal replaced: every history [x, y, valid] over 9 inputs (2 valid, unparsable, 6 failing while loading / transpiling): nothing escapes, every input is read, the final valid input prints what a fresh loop prints (closed, enumerated)'))
	if only:
		jobs = [j for j in jobs if j.obligation in only or j.obligation.split('.')[0] in only]
	rep.functions = ['SyntaxParserOfLark.__load_entry', 'CacheProvider.get (disabled)', 'Procedure.exec/__emit/__run_action', 'ErrorRender.render/__build_stacktrace/__build_quotation/__build_message']
	rep.bounds = {'exceptions': 'finite sets listed in the obligations', 'tree': 'one parsed three-statement module'}
	rep.assumptions = ['O1: Lark is a stub whose contract is "parse may raise any exception"; O4/O5 run the real Lark parser', 'the error renderer reads the module file through the in-memory file stub of harness.c16_spans']
	rep.outside = ['input texts outside the two generated families (ill-typed template fillings, single token mutations of three programs)', 'termination beyond "every generated program returned"']
	sel = [c for c in closed if not only or c[0] in only or c[0].split('.')[0] in only]
	handle = rep.start_closed_many(sel)
	rep.run_jobs(jobs)
	rep.finish_closed_many(handle)
	if not only or 'O5' in only:
		rep.run_closed('O5.bases', P, 'bases_closed', {}, 'the three base programs of the mutation family are accepted by the pipeline (closed)')
	rep.check_recorded()
