"""C07 — failures are always reported as tranp errors: normalisation kernels (CrossHair case analysis with environment stubs)."""
from vlib.runner import Job, Report

H = 'harness.c07_errors'


def run(rep: Report, tier: str, only=None) -> None:
	t = 600 if tier == 'thorough' else 200
	jobs = [
		Job('O1.parse_error', H, 'parse_error_law', {}, t, 'F', 'parser.parse raises one of 8 exceptions (UnexpectedToken, UnexpectedCharacters, UnexpectedEOF, DedentError, ValueError, RecursionError, KeyError, AssertionError) x module on disk / only in memory', ('on_disk', 'in_memory', 'syntax_error')),
		Job('O2.handler_error', H, 'handler_error_law', {}, t, 'F', 'a Procedure handler raises one of 10 exceptions (built-in, application error with node / text / no argument) at handler call 1..6 of a real parsed tree; rendering; reuse of the procedure', ('normalised',)),
		Job('O3.render', 'harness.c16_spans', 'render_law', {}, t, 'S', 'ErrorRender(Errors.NodeNotFound(node)).render() for a real node with a symbolic span or without any recorded position (line index -1)', ('position', 'no_position')),
	]
	if only:
		jobs = [j for j in jobs if j.obligation in only or j.obligation.split('.')[0] in only]
	rep.functions = ['SyntaxParserOfLark.__load_entry', 'CacheProvider.get (disabled)', 'Procedure.exec/__emit/__run_action', 'ErrorRender.render/__build_stacktrace/__build_quotation/__build_message']
	rep.bounds = {'exceptions': 'finite sets listed in the obligations', 'tree': 'one parsed three-statement module'}
	rep.assumptions = ['Lark itself is outside: the stub\'s contract is "parse may raise any exception"', 'the error renderer reads the module file through the in-memory file stub of harness.c16_spans']
	rep.outside = ['"for every input text" through the real Lark parser', 'type resolution errors of ill-typed programs', 'termination']
	rep.run_jobs(jobs)
	rep.check_recorded()
