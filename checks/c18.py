"""C18 — fragment splitting helpers respect bracket and quote nesting (CrossHair, symbolic fragment text)."""
import itertools

from vlib.runner import Job, Report

H = 'harness.c18_block'

OPEN = {'(': ')', '[': ']', '{': '}', '<': '>'}


def feasible(prefix: str) -> bool:
	"""can a well-formed fragment start like this? (same discipline as harness.c18_block.scan, open ends allowed)"""
	stack: list[str] = []
	quote = ''
	qstack: list[str] = []
	for ch in prefix:
		cur = qstack if quote else stack
		if quote and ch == quote:
			if qstack:
				return False
			quote = ''
		elif quote and ch in '"\'':
			return False
		elif not quote and ch in '"\'':
			quote = ch
		elif ch in OPEN:
			cur.append(OPEN[ch])
		elif ch in ')]}>':
			if not cur or cur.pop() != ch:
				return False
	return True


def splits(alpha: str, k: int, n: int, filt=feasible) -> list[dict]:
	"""all texts of length < k in one job, then one job per k-character prefix"""
	out = [{'first': '', 'n': k - 1}]
	for t in itertools.product(alpha, repeat=k):
		p = ''.join(t)
		if filt is None or filt(p):
			out.append({'first': p, 'n': n})
	return out


def run(rep: Report, tier: str, only=None) -> None:
	thorough = tier == 'thorough'
	n_split = 6 if thorough else 4
	n_other = 5 if thorough else 4
	k = 2 if thorough else 1
	t = 1500 if thorough else 150
	jobs: list[Job] = []
	for alpha, d in [('a,()[] ', ','), ('a,()" ', ','), ("a=<>'{}", '='), ('a:{}"( ', ':'), ('a <>,(', ' ')]:
		bound = f'fragment length <= {n_split} over {alpha!r}, delimiter {d!r}'
		for c in splits(alpha, k, n_split):
			jobs.append(Job('L1-3.split', H, 'split_laws', {'alpha': alpha, 'd': d, **c}, t, 'S', bound, ('cut', 'delim_in_bracket')))
	for alpha, br in [('a()[,"', '()'), ('a[]( .', '[]'), ('a{}; (', '{}'), ('a<>,(', '<>')]:
		for c in splits(alpha, k, n_other, lambda p: True):
			jobs.append(Job('L4.last_block', H, 'last_block_law', {'alpha': alpha, 'br': br, **c}, t, 'S', f'len(prefix)+len(inside) <= {n_other} over {alpha!r}, brackets {br}', ('earlier_group', 'nested_group')))
	for alpha, br in [('a,()[" ', '()'), ('a,<>( ', '<>')]:
		for c in splits(alpha, k, n_other):
			jobs.append(Job('L5.bracket', H, 'bracket_law', {'alpha': alpha, 'br': br, **c}, t, 'S', f'name <= 1, inside <= {n_other} over {alpha!r}, brackets {br}, at most one nested group', ('several_groups',)))
	for alpha, br, d in [('a:,"[]', '{}', ':'), ('a,<>"=', '()', ',')]:
		for c in splits(alpha, k, n_other):
			jobs.append(Job('L6.pair', H, 'pair_law', {'alpha': alpha, 'br': br, 'd': d, **c}, t, 'S', f'len(key)+len(value) <= {n_other} over {alpha!r}', ('delim_inside',)))
	for alpha in ['a=,()" ', 'ab=,[]']:
		for c in splits(alpha, k, n_other):
			jobs.append(Job('L7.decorator', H, 'decorator_law', {'alpha': alpha, **c}, t, 'S', f'path <= 2, args <= {n_other} over {alpha!r}', ('several_args', 'labelled')))
	jobs.append(Job('L7.decorator', H, 'decorator_noargs_law', {}, t, 'S', 'path <= 4 over "ab._"'))
	for alpha, name in [('a<>, :', 'n'), ('a*&( )"', 'a_b')]:
		for c in splits(alpha, k, n_other - 1):
			if c['first'].startswith(' '):
				continue
			jobs.append(Job('L8.param', H, 'param_law', {'alpha': alpha, 'name': name, 'nd': 3 if thorough else 2, **c}, t, 'S', f'type <= {n_other - 1} over {alpha!r}, name {name!r}, default <= {3 if thorough else 2}', ('with_default', 'type_with_blank')))
	for alpha, q in [('a"\' ', '"'), ('a\'"(', "'")]:
		jobs.append(Job('L9.quoted', H, 'quoted_law', {'alpha': alpha, 'd': q, 'n': n_other + 1}, t, 'S', f'2 <= len <= {n_other + 1} over {alpha!r}', ('literal',)))
	if only:
		jobs = [j for j in jobs if j.obligation in only or j.obligation.split('.')[0] in only]
	rep.functions = ['BlockParser.break_separator', 'BlockParser._skip_other_block', 'BlockParser.break_last_block', 'BlockParser.parse_bracket', 'BlockParser.parse/_parse/_analyze_entry/_parse_block',
		'BlockParser.parse_pair', 'DecoratorHelper._parse/.path/.args/.join_args', 'CppViewHelper.Param.parse', 'is_quoted_literal']
	rep.bounds = {'text': f'symbolic str, length <= {n_split} (split) / <= {n_other} (others) over 6-7 letter alphabets per case', 'case split': f'alphabet x delimiter x bracket kind x first {k} character(s) (finite, one process each)'}
	rep.assumptions = [
		'domain = well-formed fragments: brackets balanced outside quotes, quotes closed, no backslash, quoted strings hold no quote character and only self-balanced brackets',
		'single-character delimiters from {",", ":", "=", " "}',
		'parse_bracket claimed only for one (named) group with at most one nested group; parse_pair only for flat blank-free atoms',
		'Param.parse: default value has no top-level "="; type has no doubled blank; parameter name concrete per case',
	]
	rep.outside = ['fragments longer than the bound', 'escapes inside quotes', 'unbalanced bracket inside a quoted string', 'multi-character delimiters', 'parse_to_formatter']
	rep.run_jobs(jobs)
	if not only or 'L10' in only:
		rep.run_closed('L10.dictcomp_pipeline', 'harness.c18_pipeline', 'dictcomp_closed', {}, '9 dict comprehensions through the real pipeline (keys / values with top-level blanks, calls with commas, ternaries, nested brace groups, strings holding delimiters): the emitted `__ret[key] = value;` carries the text emitted for the key and the value expression on their own (closed)')
	rep.check_recorded()
