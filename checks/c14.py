"""C14 — exporting and re-importing the symbol table loses nothing: attribute-path and ordering kernels (CrossHair case analysis)."""
from vlib.runner import Job, Report

H = 'harness.c14_symbols'


def run(rep: Report, tier: str, only=None) -> None:
	thorough = tier == 'thorough'
	t = 1800 if thorough else 240
	jobs: list[Job] = []
	jobs.append(Job('O1-2.attrs', H, 'attrs_law', {}, t, 'F', 'attribute trees: level-0 fan-out in {0,1,2,3,10,11,12}, <= 3 / 2 / 2 children under attr 0 / attr 1 / the last attr, <= 2 grandchildren, optional depth-3 chain under a two-digit index; keys from a 3-key universe', ('two_digit_index', 'depth3')))
	for block in range(6):
		jobs.append(Job('O3.order', H, 'order_law', {'perm_block': block}, t, 'F', 'module of 3 classes + 2 declarations, every declaration order (120), every assignment of referenced classes (27), nested / flat attributes; export order, import into a table holding only the other module, completion mark, second import', ('ordered',)))
	if only:
		jobs = [j for j in jobs if j.obligation in only or j.obligation.split('.')[0] in only]
	rep.functions = ['seqs.expand', 'ReflectionSerializer._deserialize_attrs', 'SymbolDB.__setitem__/__getitem__/items/_order_keys/_order_keys_recursive/to_json/import_json/completed/on_complete']
	rep.bounds = {'attribute tree': 'depth <= 3, fan-out <= 12 on one level', 'module': '5 rows, 3 class keys + 1 foreign key'}
	rep.assumptions = [
		'stub reflections implement attrs (own, else the origin\'s), types.fullyname/module_path, stack(), extends(); real Symbol/Reflection objects need parsed nodes',
		'the stub serializer stores origin + flattened attrs like ReflectionSerializer.serialize and restores attrs through the real _deserialize_attrs',
		'declaration orders in which a class refers (own attributes = template types) to a class declared after itself or after a signature that mentions it are excluded as unreachable',
	]
	rep.outside = ['programs beyond the two of the closed pipeline obligation', 'symbol tables larger than the stub family']
	rep.run_jobs(jobs)
	if not only or 'O4' in only:
		rep.run_closed('O4.pipeline', 'harness.c14_pipeline', 'pipeline_closed', {}, 'two generated multi-module programs (generic class, 13-attribute signature, nested type arguments, enum, inheritance, three-module chain) through the real pipeline: export each module, import into a table holding only the others, compare symbol by symbol, completion mark, second import (closed)')
	rep.check_recorded()
