"""C09 — every handler receives exactly the results of its own children (CrossHair case analysis over program templates)."""
from vlib.runner import Job, Report

H = 'harness.c09_procedure'


def run(rep: Report, tier: str, only=None) -> None:
	thorough = tier == 'thorough'
	t = 3000 if thorough else 280
	jobs: list[Job] = []
	for tmpl in range(14):
		jobs.append(Job('O1-3.program', H, 'program_law', {'template': tmpl, 'full': thorough}, t, 'F',
			'program template (assignments, if/elif/else, while, for, def with default, class with methods / class method / generic bases, try, with, import/assert/del, enum, closure + yield, destructuring) x two expression slots over 34 expressions'
			+ (' (all pairs)' if thorough else ' (slot 2 tied to slot 1)') + ' x node kind returning None (9) x position of a nested exec (quick 4: none, 1st, 3rd, 7th handler call; thorough 2: none, 3rd; the nested run is repeated failing and caught)', ('nested_exec', 'nested_failure_caught', 'none_result')))
	if only:
		jobs = [j for j in jobs if j.obligation in only or j.obligation.split('.')[0] in only]
	rep.functions = ['Procedure.exec/__exec_impl/__process/__action/__run_action/__emit/__make_event/__is_prop_list_by/__stack_pop', 'Node.procedural/prop_keys/__prop_expand/__prop_of_nodes/_under_expand/can_expand',
		'Nodes.expand/children/by', 'definition/*.py node classes (expandable properties, match_feature)', 'NodeResolver.resolve']
	rep.bounds = {'programs': '14 templates x 34 x (1 or 34) expression fillings', 'handlers': 'one recording fallback handler returning a token per node, None for one node kind; nested exec at 4 positions'}
	rep.assumptions = [
		'finite case split (F); trees come from the shipped Lark grammar run concretely on the filled template (Lark only builds the tree)',
		'a template filling the shipped grammar rejects is skipped',
		'the recording handler compares event[k] with the tokens of getattr(node, k): single values and lists distinguished, order preserved, nothing else passed',
	]
	rep.outside = ['programs outside the templates', 'handlers with typed signatures (InvalidSchema path, C07)']
	rep.run_jobs(jobs)
	if not only or 'O4' in only:
		rep.run_closed('O4.prop_keys', H, 'prop_keys_closed', {}, 'prop_keys() of every node class equals the MRO-ordered, definition-ordered list read from the class bodies, in two asking orders with the memo cleared (closed)')
	if not only or 'O5' in only:
		rep.run_closed('O5.pipeline', 'harness.c09_pipeline', 'pipeline_closed', {}, '7 programs (generic inheritance with an inherited type-variable attribute, one / two / three imported names, try with one / two except clauses, a class with loops, comprehension, enum) as loaded modules: recording Procedure whose handler resolves the type of every node (snapshot of the flattened tree as expectation), second run, and the real Py2Cpp.transpile (closed)')
	rep.check_recorded()
