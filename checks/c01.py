"""C01 — transpiled C++ behaves like the Python source: translation validation of the scalar / control-flow core (engine E2).

Per generated function: the real transpiler emits C++; the Python source (CPython ast) and the emitted text (C++ front end with the
C++ precedence table and conversion rules) are both encoded as z3 bit-vector terms over the same inputs; z3 is asked for inputs
inside the agreement premises on which result or raise/not-raise differ. sat -> compiled with g++ and run against CPython; only a
reproducing difference is reported.
"""
import concurrent.futures
import json
import os
import subprocess
import sys
import tempfile
import time

from vlib import runner
from vlib.runner import Report

LEVEL = 'translation_validation'
WORKER = os.path.join(runner.VERIF, 'tv', 'worker.py')
BATCH = 20


def run_batch(batch_index: int, tier: str, seed: int, n_batches: int) -> dict:
	env = dict(os.environ)
	env['PYTHONDONTWRITEBYTECODE'] = '1'
	env['PYTHONHASHSEED'] = '0'
	env.pop('PYTHONPATH', None)
	try:
		p = subprocess.run([runner.PY, WORKER, tier, str(seed), str(batch_index), str(n_batches)], capture_output=True, text=True, timeout=3600, env=env, cwd=runner.REPO)
	except subprocess.TimeoutExpired:
		return {'error': f'batch {batch_index} timed out'}
	for line in p.stdout.splitlines():
		if line.startswith('RESULT '):
			return json.loads(line[7:])
	return {'error': f'batch {batch_index} produced no result: {p.stderr[-1500:]}'}


def run(rep: Report, tier: str, only=None) -> None:
	runner.ensure_venv()
	seed = rep.seed
	sys.path.insert(0, runner.VERIF)
	from tv import gen
	programs = gen.programs(tier, seed)
	n_batches = (len(programs) + BATCH - 1) // BATCH
	known = {e['class'] for e in rep.known_findings() if e.get('status') == 'finding'}
	t0 = time.time()
	results = []
	with concurrent.futures.ThreadPoolExecutor(max_workers=int(os.environ.get('VERIF_JOBS', '16'))) as ex:
		for res in ex.map(lambda b: run_batch(b, tier, seed, n_batches), range(n_batches)):
			results.append(res)
	stats = {'programs': 0, 'unsat': 0, 'sat': 0, 'unknown': 0, 'unsupported': 0, 'rejected': 0, 'replayed': 0, 'witnesses_checked': 0, 'solver_s': 0.0}
	per_cat: dict = {}
	known_seen: dict = {}
	for res in results:
		if 'error' in res:
			rep.error(res['error'])
			continue
		stats['solver_s'] += res.get('solver_s', 0.0)
		stats['witnesses_checked'] += res.get('witnesses_checked', 0)
		for w in res.get('witness_mismatches', []):
			rep.error(f'encoder validation failed (z3 C++ evaluator vs g++): {w}')
		for f in res['functions']:
			stats['programs'] += 1
			cat = per_cat.setdefault(f['category'], {'programs': 0, 'equivalent': 0, 'differ': 0, 'inconclusive': 0})
			cat['programs'] += 1
			v = f['verdict']
			if v == 'unsat':
				stats['unsat'] += 1
				cat['equivalent'] += 1
				if len(rep.samples) < 8:
					rep.samples.append({'python': f['source'], 'cpp': f.get('cpp', ''), 'verdict': 'unsat: equal results and raise behaviour for all inputs inside the premises', 'premises': f.get('n_premises')})
			elif v == 'sat':
				stats['sat'] += 1
				if f.get('replayed'):
					stats['replayed'] += 1
				if f.get('reproduced'):
					cat['differ'] += 1
					what = f'python {f["py_result"]!r} vs compiled C++ {f["cpp_result"]!r} on {f["model"]} | source: {f["source"].strip()!r} | emitted: {f.get("cpp", "").strip()!r}'
					if f.get('class') and f['class'] in known:
						known_seen.setdefault(f['class'], what)
					else:
						rep.violation(f['category'], (f'class={f["class"]} ' if f.get('class') else '') + what, {'property': 'C01', 'kind': 'tv', 'source': f['source'], 'name': f['name'], 'model': f['model'], 'cpp': f.get('cpp')})
				else:
					rep.error(f'{f["name"]}: solver model {f.get("model")} does not reproduce under g++ / CPython ({f.get("py_result")!r} vs {f.get("cpp_result")!r}) -> encoding problem, not reported as a violation; source {f["source"]!r} emitted {f.get("cpp")!r}')
			elif v == 'compile_error':
				stats['sat'] += 1
				cat['differ'] += 1
				rep.violation(f['category'], f'the emitted C++ is not accepted by g++ -std=c++20: {f.get("detail", "")[-200:]!r} | source: {f["source"].strip()!r} | emitted: {f.get("cpp", "").strip()!r}', {'property': 'C01', 'kind': 'tv-compile', 'source': f['source'], 'name': f['name']})
			elif v == 'rejected':
				stats['rejected'] += 1
				cat['inconclusive'] += 1
				rep.say(f'  inconclusive {f["name"]}: transpiler raised {f.get("detail")} for {f["source"].strip()!r}')
			elif v == 'unsupported':
				stats['unsupported'] += 1
				cat['inconclusive'] += 1
				rep.say(f'  inconclusive {f["name"]}: outside the encodable C++ subset ({f.get("detail")}) emitted {f.get("cpp", "")[:200]!r}')
			else:
				stats['unknown'] += 1
				cat['inconclusive'] += 1
				rep.say(f'  inconclusive {f["name"]}: solver {v} ({f.get("detail")})')
	for cls, what in known_seen.items():
		rep.known_finding(f'class={cls} {what}')
	for cat, c in sorted(per_cat.items()):
		o = rep.ob(cat, 'S', 'inputs a, b, d in [-2^15, 2^15), c in {False, True}' + ('; xs: list of <= 3 ints in [-2^15, 2^15)' if cat == 'list' else '') + '; premises: results fit int, modulo/shift operands non-negative, loops leave within 6 iterations')
		o['cases'] = c['programs']
		o['confirmed'] = c['equivalent']
		o['inconclusive'] = c['inconclusive']
		o['refuted'] = c['differ']
		o['paths'] = c['programs']
	rep.paths = stats['programs']
	rep.reach = stats['unsat'] + stats['sat']
	rep.cpu = stats['solver_s']
	rep.replays = stats['replayed'] + stats['witnesses_checked']
	rep.functions = ['Py2Cpp.transpile (complete pipeline: Modules.load, Reflections, Py2Cpp.on_* handlers, Renderer + data/cpp/template/**/*.j2) run concretely per program', 'emitted C++ encoded by tv/fronts.py + tv/sem.py']
	rep.bounds = {'programs': f'{stats["programs"]} generated functions (tier {tier}, seed {seed}): operator pairs exhaustively, sampled / all triples, unary, boolean, ternary, parenthesised, statement, call, list and class templates', 'inputs': 'three ints in [-2^15, 2^15) and one bool, symbolic; list programs: a list[int] of symbolic length <= 3 with symbolic elements in [-2^15, 2^15), two ints, one bool', 'loops': 'unrolled 6 times with unwinding assumption', 'lists': 'bounded model of capacity 4 (length term + 4 element terms); appends beyond the capacity are outside (premise)'}
	rep.assumptions = [
		'premises of the property collected from the Python side: every intermediate fits a C++ int, % and shifts on non-negative operands (shift < 31), no division, loops exit within the unrolling, list indices inside [-len, len) (an IndexError is outside the agreement region)',
		'a difference inside the trigger region of a listed finding class (conditions collected by the machines: non-negative index, no continue inside an enumerate body, non-negative operands next to a std::size_t, no assignment to a range-for variable) is re-solved with those regions excluded: unsat -> attributed to the class (KNOWN-FINDING), sat -> the remaining difference is reported',
		'C++ semantics of the emitted subset as implemented in tv/sem.py + tv/fronts.py (precedence table, bool/int conversions at declarations, conditions and operands); validated on every run by compiling solver-chosen witnesses with g++ and comparing',
		'programs = bounded enumeration of shapes; inputs = solver verdict',
	]
	rep.outside = ['strings, dicts, tuples, classes beyond int / bool fields with single inheritance, enums, closures, try blocks around raising calls / several handlers / finally, floats, lists of anything but int, list slices / methods other than append, lists as return values, mutation of list parameters', 'tree-grouping errors that leave the flat text unchanged (C02)', 'programs outside the generated shapes']
	rep.extra.update({'programs': stats['programs'], 'disagreements_checked': stats['replayed'], 'equivalent': stats['unsat'], 'differing': stats['sat'], 'rejected_by_transpiler': stats['rejected'], 'outside_encodable_subset': stats['unsupported'],
		'solver_unknown': stats['unknown'], 'witnesses_validated_with_gpp': stats['witnesses_checked'], 'per_category': per_cat, 'wall_s_transpile_and_solve': round(time.time() - t0, 1),
		'trusted_base': ['z3 5.1.0', 'tv/sem.py + tv/fronts.py C++ subset semantics (validated against g++ on witnesses each run)', 'CPython ast', 'g++ -std=c++20 for replays']})
	# one run over several modules: the emitted text of a module does not depend on the others (closed)
	if not only or 'runs' in only:
		rep.run_closed('runs', 'harness.c01_runs', 'runs_closed', {}, 'two modules built from the list / class / statement templates (same tree paths, different names and operators) transpiled by one transpiler object in three orders: every module gets the text it gets alone (closed)')
	# recorded witnesses: an open finding is announced while it still reproduces, a repaired one must stay repaired
	for e in rep.known_findings():
		w = e.get('witness') or {}
		if w.get('kind') != 'tv':
			continue
		reproduced = replay(w, quiet=True) == 1
		rep.replays += 1
		if e.get('status') == 'fixed':
			o = rep.ob('regression', 'C', 'recorded witnesses of repaired defects (transpiled, compiled with g++, compared with CPython)')
			o['cases'] += 1
			if reproduced:
				o['refuted'] += 1
				rep.violation('regression', f'repaired defect is back: class={e["class"]} {e.get("what", "")}', {'property': 'C01', **w})
			else:
				o['confirmed'] += 1
		elif e.get('status') == 'finding' and reproduced and e['class'] not in known_seen:
			rep.known_finding(f'class={e["class"]} {e.get("what", "")} witness={w.get("source", "").strip()!r} {w.get("model")}')


def replay(w: dict, quiet: bool = False) -> int:
	runner.ensure_venv()
	with tempfile.NamedTemporaryFile('w', suffix='.json', delete=False) as f:
		json.dump(w, f)
	p = subprocess.run([runner.PY, WORKER, 'replay', f.name], capture_output=True, text=True, cwd=runner.REPO)
	os.unlink(f.name)
	if not quiet:
		print(p.stdout[-2000:])
	return 1 if 'REPRODUCED' in p.stdout else 0
