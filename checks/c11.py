"""C11 — the self-hosted parser builds the trees CPython builds (CrossHair: symbolic lexer, parser run per realised token list; slot templates)."""
from vlib.runner import Job, Report, class_splits

H = 'harness.c11_parser'


def run(rep: Report, tier: str, only=None) -> None:
	thorough = tier == 'thorough'
	t = 2400 if thorough else 280
	n = 5 if thorough else 4
	k = 2 if thorough else 1
	jobs: list[Job] = []
	alphabets = [['a', '1', '+', '*', '(', '='], ['a', '<', ',', '[', ':', '.'], ['a', '-', ' ', '(', '\n', '"'], ['a', ')', ']', '=', ' ', '\n']]
	if thorough:
		alphabets += [['a', ':', '\n', ' ', '-', '1'], ['a', '{', '}', '"', ':', ','], ['a', '/', '!', '>', '=', '%']]  # no backslash class: CrossHair 0.0.110 fails internally (str.find on a symbolic string outside tracing) on it
	for ai, classes in enumerate(alphabets):
		for c in class_splits(classes, k, n if (thorough or ai < 2) else n - 1):
			if not c['prefix'] and c['n'] == 0:
				continue
			jobs.append(Job('O1-2.buffer', H, 'buffer_law', c, t, 'S', f'source buffer 1..{c["n"]} over {classes!r} (lexer symbolic, parser per realised token list)', ('accepted', 'rejected', 'compared')))
	for tmpl in range(6):
		jobs.append(Job('O3.atom_slots', H, 'atoms_law', {'template': tmpl}, t, 'F', 'atom template with two slots over 26 atom spellings (names next to keywords, 0 / decimal forms, both string quotes, True/False/None and their look-alikes)', ('compared',)))
	jobs.append(Job('O4.reuse', H, 'reuse_law', {}, t, 'F', 'one SyntaxParser object parses text i, then text j twice, over 13 accepted / rejected texts: the answers for j equal those of a fresh parser', ('after_rejected', 'after_accepted')))
	jobs.append(Job('O3.rejected_ops', H, 'reject_law', {'template': -1}, t, 'F', '18 operator spellings absent from py_gram.lark in 4 sentence shapes: Errors.Syntax naming a token and an existing line', ('rejected',)))
	for tmpl in range(13):
		jobs.append(Job('O3.expr_slots', H, 'template_law', {'template': tmpl}, t, 'F', 'expression template with two operator slots over all 17 binary operator spellings of py_gram.lark (+ - * / % < > == <= >= != in, not in, is, is not, and, or)', ('compared',)))
	for tmpl in range(6):
		jobs.append(Job('O3.stmt_slots', H, 'template_law', {'template': tmpl, 'stmt': True, 'nsimple': 10 if thorough else 6}, t, 'F', 'statement template (if/elif/else, nested if, while, for, def with typed/default parameters) with an operator slot (17) and two simple-statement slots (6 x 6 quick, 10 x 10 thorough)', ('compared',)))
	if only:
		jobs = [j for j in jobs if j.obligation in only or j.obligation.split('.')[0] in only]
	rep.functions = ['Tokenizer.parse / Lexer.* (symbolic)', 'SyntaxParser.parse/_match_symbol/_unwrap_children/_match_entry/_match_or/_match_and/_match_repeat/_match_terminal/_compare_token', 'Rules (py_rules())', 'ErrorCollector.summary', 'ASTTree.simplify']
	rep.bounds = {'buffer': f'symbolic str, 1..{n} characters over 6-letter alphabets of single representatives', 'templates': '11 expression + 6 statement templates, operator / statement slots exhaustively'}
	rep.assumptions = [
		'the parser is executed natively once per lexer path on the realised token list (symbolic token strings through the terminal regexes do not close: probe p11a); realisation forks, so every token list the bound allows is visited',
		'oracle: harness/c11_canon.py maps both trees onto one vocabulary; constructs it cannot express are skipped, never reported',
		'"derivable" is by construction for the slot templates (they must be accepted); for free buffers the claim is accept-with-matching-tree or Errors.Syntax with a summary naming a token and an existing line',
		'the lexer marks a minus followed by a non-blank as unary (documented XXX): "a-b" is therefore outside the token-level grammar',
	]
	rep.outside = ['sentences deeper than the templates', 'strings with escapes', 'buffers longer than the bound']
	rep.run_jobs(jobs)
	rep.check_recorded()
