"""C13 — tokenizer agrees with Python and ignores insignificant layout (CrossHair, symbolic source buffer over character classes)."""
from vlib.runner import Job, Report, class_splits

H = 'harness.c13_tokenizer'
L = 'abcdefghijklmnopqrstuvwxyzABCDEFGHIJKLMNOPQRSTUVWXYZ_'
L_NO_R = L.replace('r', '')
D = '0123456789'

# thorough tier only: the symbol classes left out of the quick alphabets
LEXER_ALPHABETS_MORE = [
	[L, '*!', '=', '.', '%^~', ' '],
	[L, '[{', ']}', ';@', '\n', ':'],
]
LEXER_ALPHABETS = [
	[L, D, ' \t', '\n', '#', '=-'],
	[L, '=', '-+', '<>', ':', ' '],
	[D, '.', '&|', '=', '/', L],
	['"', "'", '\\', 'r', L_NO_R, '\n'],
	[L, '(', ')', ',', '\n', ' '],
]
# (classes, extra length over n): block structure needs at least 4 characters ("a\n b")
BALANCE_ALPHABETS = [
	([L, ' ', '\n'], 2),
	([L, '\n', '(', ')'], 1),
	([L, '\t', '\n', '#'], 1),
]
CPYTHON_ALPHABETS = [
	[L, D, ' ', '\n', ':=', '()'],
	['"', '\\', L_NO_R, ' ', "'", 'r'],
	['=', '-', '<', '*', D, L],
	[L, '\t', '\n', '#', ':'],
]
SPACE_ALPHABETS = [[L + D, '=-<', '(', '\n', ' ']]
LINE_END_ALPHABETS = [[L, '\n', ' ', '(-', '#']]
EDITS = ['trail', 'comment', 'blankline', 'commentline', 'spaced_commentline']


def show(classes: list) -> str:
	return '[' + ' | '.join('letters' if c == L else 'letters-r' if c == L_NO_R else 'digits' if c == D else repr(c) for c in classes) + ']'


def run(rep: Report, tier: str, only=None) -> None:
	thorough = tier == 'thorough'
	n = 4 if thorough else 3  # 5 did not finish inside two 4 h background runs on a shared machine (THOROUGH_RUNS.md)
	k = 2 if thorough else 1
	t = 2400 if thorough else 240
	jobs: list[Job] = []
	for classes in LEXER_ALPHABETS + (LEXER_ALPHABETS_MORE if thorough else []):
		for c in class_splits(classes, k, n):
			if '\\' in classes:
				c = {**c, 'subset': True}
			jobs.append(Job('O1-3.lexer', H, 'lexer_laws', c, t, 'S', f'buffer length <= {n} over classes {show(classes)}', ('several_tokens', 'multi_line_token')))
	for classes, extra in BALANCE_ALPHABETS:
		for c in class_splits(classes, k, n + extra):
			jobs.append(Job('O4.balance', H, 'balance_law', c, t, 'S', f'buffer length <= {n + extra} over {show(classes)}, consistent layout', ('indent', 'bracket')))
	n_cp = n - 1 if thorough else n  # the reference lexer runs next to the implementation: one character less than the raw-lexer laws
	for classes in CPYTHON_ALPHABETS:
		for c in class_splits(classes, k, n_cp):
			jobs.append(Job('O5.cpython', H, 'cpython_law', c, t, 'S', f'buffer length <= {n_cp} over {show(classes)}, inside the lexical subset', ('several_tokens',)))
	# strings ending in escaped backslashes followed by more quotes (the region of the repaired parse_quote defect)
	esc = ['"', '\\', L_NO_R, ' ']
	jobs.append(Job('O5.cpython', H, 'cpython_law', {'classes': esc, 'prefix': [0, 1, 1], 'n': n + (2 if thorough else 3)}, t, 'S', f'buffer length <= {n + (2 if thorough else 3)} starting with quote, backslash, backslash over {show(esc)}', ('string',)))
	jobs.append(Job('O5.cpython', H, 'cpython_law', {'classes': esc, 'prefix': [0, 2, 1], 'n': n + (2 if thorough else 3)}, t, 'S', f'buffer length <= {n + (2 if thorough else 3)} starting with quote, letter, backslash over {show(esc)}', ('string',)))
	n_lay = n - 1 if thorough else n
	for classes in SPACE_ALPHABETS:
		for c in class_splits(classes, k, n_lay):
			jobs.append(Job('O6.space', H, 'space_law', c, t, 'S', f'buffer length <= {n_lay} over {show(classes)}, symbolic edit position', ('edit',)))
	for edit in (EDITS if thorough else EDITS[:2] + EDITS[3:4]):
		for classes in LINE_END_ALPHABETS:
			for c in class_splits(classes, k, n_lay):
				jobs.append(Job('O6.line_end', H, 'line_end_law', {'edit': edit, **c}, t, 'S', f'buffer length <= {n_lay} over {show(classes)}, symbolic line end, edit {edit}', ('edit', 'inner_line_end')))
	if only:
		jobs = [j for j in jobs if j.obligation in only or j.obligation.split('.')[0] in only]
	rep.functions = ['Lexer.parse_impl', 'Lexer.analyze_domain/analyze_*', 'Lexer.parse_white_spece/parse_comment/parse_quote/parse_number/parse_identifier/parse_symbol', 'Lexer.parse/post_filter',
		'Tokenizer.parse/_rebuild/handle_white_space/handle_symbol', 'Tokenizer.Context.to_nest', 'Token.SourceMap.make', 'Token.joined/to_new_line/to_indent/to_dedent']
	rep.bounds = {'source': f'symbolic str, length <= {n} (lexer laws, block balance, CPython agreement, layout rewrites; escaped-backslash strings up to {n + 3}) over alphabets of 5-7 character classes (a class such as "all letters" stays one path)',
		'case split': f'alphabet x class of the first {k} character(s) x edit kind'}
	rep.assumptions = [
		'layout laws: first line not indented, indentation a multiple of the first unit, blanks or tabs (not mixed), at most one level deeper per line, brackets balanced, no quotes',
		'space law: blank inserted between an operator character and a non-operator character, not after a minus, not at a line start, not inside a comment',
		'no backslash outside string literals (line continuation is outside the supported subset)',
		'O5: "CPython\'s tokenizer output" is the reference lexer harness/pylex_ref.py; it is compared with the real tokenize module on every buffer <= 5 characters over five 8-letter alphabets before the solver jobs start (and any disagreement aborts the check); '
		'the lexical subset excludes: floats without leading digit, string prefixes other than r, triple single quotes, operators only one of the two lexers knows (// **= <<= >>= //= @= <> && || ~= ! $ ? `), indentation that is not a multiple of the first unit or grows by more than one level, sources without any token',
		'tokenizer.re.split is answered without the regex model for the line-continuation pattern on strings without backslash (the pattern needs a literal backslash; checked concretely at harness import)',
	]
	rep.outside = ['buffers longer than the bound', 'exponents, hex/underscore literals, triple-single quotes, f-string internals, line continuation']
	if not only or 'O5' in only or 'O5.cpython' in only:
		validate_reference(rep)
	rep.run_jobs(jobs)
	if not only or 'O6' in only or 'O6.indent_unit' in only or 'O5.templates' in only:
		rep.run_closed('O5.templates', H, 'templates_closed', {}, '480 structured multi-line sources (bracket continuation x block indentation x comments / blank lines) against the real tokenize module (closed)')
		rep.run_closed('O5.strings', H, 'strings_closed', {}, '28 string literals (plain, raw, triple double-quoted; escaped quotes and backslashes next to the closing quote; comment / bracket characters inside; adjacent literals) in three statement contexts against the real tokenize module (closed)')
		rep.run_closed('O6.indent_unit', H, 'indent_unit_closed', {}, '14 nestings x 4 indentation units x 8 bodies (closed, evaluated directly)')
	rep.check_recorded()


def validate_reference(rep: Report) -> None:
	"""encoder validation: the reference lexer against the real tokenize module (concrete, in a subprocess of the check venv)"""
	import json
	import subprocess
	from vlib import runner
	runner.ensure_venv()
	code = ('import sys, json; sys.path.insert(0, %r); from harness import pylex_ref as R\n'
		'tot = [0, 0, []]\n'
		'for alpha, n in [("a1 \\n(#:=", 5), ("ar\\"\\x27\\\\\\n x", 5), ("1.a-+*<>", 5), ("a \\t\\n:(),", 5), ("=!&|~/@%%", 4), ("a\\n #[]1", 5)]:\n'
		'    c, i, bad = R.validate_against_cpython(alpha, n); tot[0] += c; tot[1] += i; tot[2] += bad[:3]\n'
		'print(json.dumps(tot))\n') % runner.VERIF
	p = subprocess.run([runner.PY, '-c', code], capture_output=True, text=True, timeout=600)
	try:
		compared, inside, bad = json.loads(p.stdout.strip().splitlines()[-1])
	except (ValueError, IndexError):
		rep.error(f'reference lexer validation did not run: {p.stderr[-500:]}')
		return
	rep.extra['reference_validation'] = {'buffers_compared_with_tokenize': compared, 'inside_subset': inside, 'disagreements': len(bad)}
	if bad:
		rep.error(f'reference lexer disagrees with CPython tokenize (harness defect, not a tranp finding): {bad[:2]}')
