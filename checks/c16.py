"""C16 — a node's source span covers exactly the node's own text: span arithmetic kernels (CrossHair)."""
from vlib.runner import Job, Report, class_splits

H = 'harness.c16_spans'
L = 'abcdefghijklmnopqrstuvwxyzABCDEFGHIJKLMNOPQRSTUVWXYZ_'


def run(rep: Report, tier: str, only=None) -> None:
	thorough = tier == 'thorough'
	t = 1800 if thorough else 240
	n_make = 7 if thorough else 5
	n_quote = 6 if thorough else 4
	k = 2 if thorough else 1
	jobs: list[Job] = []
	for c in class_splits([L, '\n', ' =('], k, n_make):
		jobs.append(Job('O1.make', H, 'make_law', c, t, 'S', f'source <= {n_make} over [letters | newline | blank = (], symbolic 0 <= begin <= end <= len', ('multi_line', 'several_line_breaks')))
	jobs.append(Job('O5.entry_span', H, 'entry_span_law', {}, t, 'S', 'token / tree, presence and meta.empty flags, four unbounded non-negative ints', ('recorded', 'default')))
	jobs.append(Job('O5.restored_span', H, 'restored_span_law', {}, t, 'S', 'tree + token spans (8 unbounded non-negative ints, presence / meta.empty flags) read through Serialization.loads(dumps(tree))', ('multi_line',)))
	for second in (0, 1):
		jobs.append(Job('O3.quotation', H, 'quotation_law', {'second': second}, t, 'S',
			'reported line one of 10 representative texts (tabs, blanks, code, form feed / vertical tab / NEL / LS characters; finite), symbolic columns 0 <= begin <= end <= len, same-line / multi-line node, first / second line of the file', ('tab', 'multi_line_node', 'zero_width')))
	jobs.append(Job('O3.render', H, 'render_law', {}, t, 'S', 'real Nodes/Node over a synthetic tree; symbolic 1-based line (1..3) and columns (1..12), span recorded or missing; ErrorRender(Errors.NodeNotFound(node)).render()', ('position', 'no_position')))
	if only:
		jobs = [j for j in jobs if j.obligation in only or j.obligation.split('.')[0] in only]
	rep.functions = ['Token.SourceMap.make', 'EntryOfLark.source_map', 'Nodes.source_map', 'Node.source_map', 'ErrorRender.render/__build_quotation/__build_message/__build_stacktrace', 'ErrorRender.Quotation.__load_line/__cause_range/build/__build_line_mark']
	rep.bounds = {'source': f'symbolic str <= {n_make}', 'line text': f'symbolic str <= {n_quote}', 'columns': 'symbolic ints within the line (+1)'}
	rep.assumptions = [
		'environment stubs: error_render.open returns a fake file holding the symbolic line(s); error_render.os.path.exists answers True',
		'spans recorded by Lark (which tokens a rule covers, child inside parent) are outside: only what tranp does with recorded spans is claimed',
		'raw-lexer spans slicing to their token text are C13 O2; spans surviving the cache round trip are C15',
	]
	rep.outside = ['tokenize(slice(source, span(n))) == tokens(n) and child span inside parent span for real parses (Lark)', 'lines longer than the bound']
	rep.run_jobs(jobs)
	if not only or 'O6' in only:
		rep.run_closed('O6.pipeline_spans', 'harness.c16_pipeline', 'spans_closed', {}, 'two loaded modules (decorated class method / property / override, nested blocks, expressions continued on the next line, enum, try, comprehension): begin <= end, child span inside the parent span, a terminal span delimits its text, a decorated definition contains its decorator lines (closed)')
	rep.check_recorded()
