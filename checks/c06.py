"""C06 — non-forced runs leave every output equal to a forced run: header / decision / path laws (CrossHair), regeneration step law over import graphs, closed histories through the real command-line application."""
from vlib.runner import Job, Report, class_splits

H = 'harness.c06_outputs'


def run(rep: Report, tier: str, only=None) -> None:
	thorough = tier == 'thorough'
	t = 1800 if thorough else 240
	n = 7 if thorough else 5
	jobs = []
	classes = ['a', '}', '{', '"', '@tranp.me: ', '\n']
	jobs.append(Job('O1.header', H, 'header_law', {'classes': classes, 'n': n}, t, 'S', f'header JSON text <= {n} over [a | }} | {{ | " | characters of the tag | newline] (one line, {{...}}), rest of the file <= 3 over the same alphabet', ('brace_after_header', 'brace_inside_header')))
	jobs.append(Job('O2.decision', H, 'decision_law', {}, t, 'F', 'which header component differs (none, source hash, module path, transpiler version, transpiler module, application version) x output file present x header present', ('component_changed', 'up_to_date')))
	for cfg in range(3):
		for c in class_splits(['ab', 's', 'r', 'c', '.'], 1, 4 if thorough else 3):
			jobs.append(Job('O3.paths', H, 'path_law', {'config': cfg, **c}, t, 'S', f'two module paths <= {4 if thorough else 3} over [ab | s | r | c | .] (dotted, distinct) under output_dirs configuration #{cfg} of 3 (fallback only; prefix rule; two prefix rules)', ()))
	for row in range(4):
		jobs.append(Job('O3.elem_paths', H, 'elem_paths_law', {'row': row}, t, 'F', 'two module paths out of 45 element sequences (<= 4 elements of [s, x, u] under the rule folder s, plus 5 outside it), all pairs, under 2 output_dirs configurations', ('rule_folder_recurs',)))
	HH = 'harness.c06_histories'
	jobs.append(Job('O4.regen.near', HH, 'regen_law', {'far': False}, t, 'F', 'module_meta_factory + MetaHeader + Runner.can_transpile over every acyclic import graph of 4 modules (64) x edited module (4): the edited module itself is selected for regeneration', ('dist0',)))
	jobs.append(Job('O4.regen.far', HH, 'regen_law', {'far': True}, t, 'F', 'the same graphs: a module importing the edited module (distance >= 1) is selected for regeneration; a failing step is demonstrated through the real command-line application before it is reported', ('dist1', 'dist2')))
	base = ['edit', 'fresh-edit', 'delete', 'back', 'forced-middle', 'edit-delete', 'upgrade']
	plan = [(shape, f) for shape in ('chain3', 'fan3') for f in base] + [('diamond', f) for f in ('edit', 'delete', 'back')]
	if thorough:
		plan += [('diamond', f) for f in ('fresh-edit', 'forced-middle', 'edit-delete', 'two')] + [(shape, 'two') for shape in ('chain3', 'fan3')] + [('chain4', f) for f in base]
	closed = [(f'O5.histories.{shape}.{f}', HH, 'histories_closed', {'shape': shape, 'families': [f]},
		f'module graph {shape}: every history of the family {f!r} over all choices of the edited / deleted module(s) through the real TranspileApp (config file, globs, output_dirs, Writer) on a scratch file system; at every run the files after `run` are compared with the files after `run -f` from the same state, and unedited modules keep their output file untouched (closed)') for shape, f in plan]
	if only:
		closed = [c for c in closed if c[0] in only or c[0].split('.')[0] in only]
		jobs = [j for j in jobs if j.obligation in only or j.obligation.split('.')[0] in only]
	rep.functions = ['MetaHeader.to_header_str/to_json/try_from_content/from_json/__eq__/identity', 'data/cpp/template/block/entrypoint.j2 (first line, read at run time)', 'Runner.can_transpile/try_load_meta_header/output_filepath/fetch_output_path']
	rep.bounds = {'header text': f'symbolic str <= {n}', 'module paths': 'two symbolic dotted paths'}
	rep.assumptions = [
		'O1: json inside header.py is a codec stub (dumps -> arbitrary single-line {...} text, loads records its argument); json.loads(json.dumps(x)) == x for the header dict is assumed (stdlib)',
		'O2: md5 collision-freeness',
		'O3: configurations in which two rules write into the same directory are excluded; glob rules (re.fullmatch) are a closed obligation over 10 module names',
	]
	rep.outside = ['import graphs of more than 4 modules', 'histories beyond the listed families', 'output_dirs mappings other than one prefix rule in the histories (the path laws O3 cover the mapping itself)', 'cache effects (the caches of the generated modules are dropped before every run: property C05)']
	handle = rep.start_closed_many(closed)
	rep.run_jobs(jobs)
	rep.finish_closed_many(handle)
	if not only or 'O3' in only:
		rep.run_closed('O3.glob_paths', H, 'glob_paths_closed', {}, 'glob rules: 3 configurations x 10 module names through Runner.output_filepath, pairwise distinct (closed)')
	rep.check_recorded()
