"""C06 — non-forced runs leave every output equal to a forced run: header and path sentences (CrossHair)."""
from vlib.runner import Job, Report, class_splits

H = 'harness.c06_outputs'


def run(rep: Report, tier: str, only=None) -> None:
	thorough = tier == 'thorough'
	t = 1800 if thorough else 240
	n = 7 if thorough else 5
	jobs = []
	classes = ['a', '}', '{', '"', '@tranp.me: ', '\n']
	jobs.append(Job('O1.header', H, 'header_law', {'classes': classes, 'n': n}, t, 'S', f'header JSON text <= {n} over [a | }} | {{ | " | characters of the tag | newline] (one line, {{...}}), rest of the file <= 3 over the same alphabet', ('brace_after_header', 'brace_inside_header')))
	jobs.append(Job('O2.decision', H, 'decision_law', {}, t, 'F', 'which header component differs (none, source hash, module path, transpiler version, transpiler module, application version) x output file present x header present', ('component_changed', 'up_to_date')))
	for cfg in range(3):
		for c in class_splits(['ab', 's', 'r', 'c', '.'], 1, 4 if thorough else 3):
			jobs.append(Job('O3.paths', H, 'path_law', {'config': cfg, **c}, t, 'S', f'two module paths <= {4 if thorough else 3} over [ab | s | r | c | .] (dotted, distinct) under output_dirs configuration #{cfg} of 3 (fallback only; prefix rule; two prefix rules)', ()))
	for row in range(4):
		jobs.append(Job('O3.elem_paths', H, 'elem_paths_law', {'row': row}, t, 'F', 'two module paths out of 45 element sequences (<= 4 elements of [s, x, u] under the rule folder s, plus 5 outside it), all pairs, under 2 output_dirs configurations', ('rule_folder_recurs',)))
	if only:
		jobs = [j for j in jobs if j.obligation in only or j.obligation.split('.')[0] in only]
	rep.functions = ['MetaHeader.to_header_str/to_json/try_from_content/from_json/__eq__/identity', 'data/cpp/template/block/entrypoint.j2 (first line, read at run time)', 'Runner.can_transpile/try_load_meta_header/output_filepath/fetch_output_path']
	rep.bounds = {'header text': f'symbolic str <= {n}', 'module paths': 'two symbolic dotted paths'}
	rep.assumptions = [
		'O1: json inside header.py is a codec stub (dumps -> arbitrary single-line {...} text, loads records its argument); json.loads(json.dumps(x)) == x for the header dict is assumed (stdlib)',
		'O2: md5 collision-freeness',
		'O3: configurations in which two rules write into the same directory are excluded; glob rules (re.fullmatch) are a closed obligation over 10 module names',
	]
	rep.outside = ['the history quantifier (files after edit / run sequences)', 'whether everything that influences a module\'s output is in its header (needs two pipeline runs)']
	rep.run_jobs(jobs)
	if not only or 'O3' in only:
		rep.run_closed('O3.glob_paths', H, 'glob_paths_closed', {}, 'glob rules: 3 configurations x 10 module names through Runner.output_filepath, pairwise distinct (closed)')
	rep.check_recorded()
