#!/bin/bash
# setup_cmd: builds /verif/.venv (overlay on /venv) from the offline wheelhouse; idempotent.
set -e
cd "$(dirname "$0")"
V="$(pwd)/.venv"
if [ -x "$V/bin/crosshair" ] && "$V/bin/python" -c "import crosshair, z3, lark, jinja2" 2>/dev/null; then
  exit 0
fi
rm -rf "$V"
/venv/bin/python -m venv "$V"
SP=$("$V/bin/python" -c "import sysconfig; print(sysconfig.get_paths()['purelib'])")
printf '/venv/lib/python3.12/site-packages\n/repo\n' > "$SP/verif_overlay.pth"
PIP_NO_INDEX=1 "$V/bin/pip" install -q --no-index --find-links /opt/veriftools/wheels crosshair-tool z3-solver cvc5 >/dev/null
"$V/bin/python" -c "import crosshair, z3, lark, jinja2; print('verif venv ok', z3.get_version_string())"
