"""Specialises LiteralEvaluator._op_bin_each (+ _calc / _bitwise) from the *current source* for abstractly typed operands.

A tiny abstract interpreter over the Python AST of the real methods: operands are typed symbols ('int' / 'float'), operators
are concrete strings. The result is an expression tree of what the code computes for that type triple, e.g. for
(int, '/', int) on the pinned tree:   ('fdiv', ('to_float', ('var', 'a')), ('to_float', ('var', 'b'))).
Anything the interpreter does not understand raises Unsupported -> the obligation is reported inconclusive, never discharged.
"""
import ast
import inspect
import textwrap


class Unsupported(Exception):
	pass


class Refused(Exception):
	"""the specialised code raises (AssertionError / OperationNotAllowed): a refusal, allowed by the property"""


class Sym:
	"""abstract run-time value: kind in {'int', 'float'}, term = expression tree"""

	def __init__(self, kind: str, term) -> None:
		self.kind = kind
		self.term = term

	def __repr__(self) -> str:
		return f'Sym({self.kind}, {self.term})'


class _Return(Exception):
	def __init__(self, value) -> None:
		self.value = value


ARITH = {ast.Add: 'add', ast.Sub: 'sub', ast.Mult: 'mul', ast.Mod: 'mod', ast.Div: 'div', ast.BitOr: 'or', ast.BitXor: 'xor', ast.BitAnd: 'and', ast.LShift: 'shl', ast.RShift: 'shr'}


class Interp:
	def __init__(self, cls) -> None:
		self.cls = cls
		self.steps = 0

	def method(self, name: str) -> ast.FunctionDef:
		fn = getattr(self.cls, name)
		tree = ast.parse(textwrap.dedent(inspect.getsource(fn)))
		node = tree.body[0]
		if not isinstance(node, ast.FunctionDef):
			raise Unsupported(f'{name} is not a plain function')
		return node

	def call_method(self, name: str, args: list):
		fn = self.method(name)
		params = [a.arg for a in fn.args.args]
		env = dict(zip(params, ['<self>'] + args))
		try:
			self.block(fn.body, env)
		except _Return as r:
			return r.value
		return None

	def block(self, stmts, env) -> None:
		for st in stmts:
			self.stmt(st, env)

	def stmt(self, st, env) -> None:
		self.steps += 1
		if self.steps > 2000:
			raise Unsupported('step limit')
		if isinstance(st, ast.Expr):
			if isinstance(st.value, ast.Constant):
				return  # docstring
			self.expr(st.value, env)
		elif isinstance(st, ast.Assign):
			if len(st.targets) != 1 or not isinstance(st.targets[0], ast.Name):
				raise Unsupported('assignment target')
			env[st.targets[0].id] = self.expr(st.value, env)
		elif isinstance(st, ast.AugAssign):
			if not isinstance(st.target, ast.Name):
				raise Unsupported('augmented target')
			env[st.target.id] = self.binop(type(st.op), env[st.target.id], self.expr(st.value, env))
		elif isinstance(st, ast.While):
			n = 0
			while self.truth(self.expr(st.test, env)):
				n += 1
				if n > 8:
					raise Unsupported('loop bound')
				self.block(st.body, env)
		elif isinstance(st, ast.If):
			if self.truth(self.expr(st.test, env)):
				self.block(st.body, env)
			else:
				self.block(st.orelse, env)
		elif isinstance(st, ast.Try):
			# handlers only translate AssertionError into a refusal; Refused already models that
			self.block(st.body, env)
		elif isinstance(st, ast.Return):
			raise _Return(self.expr(st.value, env) if st.value else None)
		elif isinstance(st, ast.Assert):
			if not self.truth(self.expr(st.test, env)):
				raise Refused('assert')
		elif isinstance(st, ast.Raise):
			raise Refused('raise')
		elif isinstance(st, ast.Pass):
			return
		else:
			raise Unsupported(f'statement {type(st).__name__}')

	def truth(self, v) -> bool:
		if isinstance(v, Sym):
			raise Unsupported('branch on a symbolic value')
		return bool(v)

	def binop(self, op, left, right):
		if op not in ARITH:
			raise Unsupported(f'operator {op.__name__}')
		name = ARITH[op]
		if not isinstance(left, Sym) and not isinstance(right, Sym):
			import operator as _o
			return {'add': _o.add, 'sub': _o.sub, 'mul': _o.mul, 'mod': _o.mod, 'div': _o.truediv, 'or': _o.or_, 'xor': _o.xor, 'and': _o.and_, 'shl': _o.lshift, 'shr': _o.rshift}[name](left, right)  # concrete
		if not isinstance(left, Sym) or not isinstance(right, Sym):
			raise Unsupported('mixed concrete/symbolic arithmetic')
		if left.kind == 'float' or right.kind == 'float':
			if name in ('or', 'xor', 'and', 'shl', 'shr'):
				raise Refused('bitwise operator on float (TypeError)')
			lt = left.term if left.kind == 'float' else ('to_float', left.term)
			rt = right.term if right.kind == 'float' else ('to_float', right.term)
			return Sym('float', ('f' + name, lt, rt))
		if name == 'div':
			return Sym('float', ('int_truediv', left.term, right.term))
		return Sym('int', ('i' + name, left.term, right.term))

	def expr(self, e, env):
		if isinstance(e, ast.Constant):
			return e.value
		if isinstance(e, ast.Name):
			if e.id in env:
				return env[e.id]
			if e.id == self.cls.__name__:
				return self.cls
			raise Unsupported(f'name {e.id}')
		if isinstance(e, ast.Attribute):
			base = self.expr(e.value, env)
			if base == '<self>':
				return ('<method>', e.attr) if callable(getattr(self.cls, e.attr, None)) else getattr(self.cls, e.attr)
			if base is self.cls:
				return getattr(self.cls, e.attr)
			raise Unsupported('attribute access')
		if isinstance(e, ast.Subscript):
			base = self.expr(e.value, env)
			idx = self.expr(e.slice, env)
			if isinstance(base, list) and isinstance(idx, int):
				return base[idx]
			raise Unsupported('subscript')
		if isinstance(e, ast.BinOp):
			return self.binop(type(e.op), self.expr(e.left, env), self.expr(e.right, env))
		if isinstance(e, ast.UnaryOp) and isinstance(e.op, ast.Not):
			return not self.truth(self.expr(e.operand, env))
		if isinstance(e, ast.BoolOp):
			if isinstance(e.op, ast.Or):
				for v in e.values:
					r = self.expr(v, env)
					if self.truth(r):
						return r
				return r
			for v in e.values:
				r = self.expr(v, env)
				if not self.truth(r):
					return r
			return r
		if isinstance(e, ast.Compare):
			if len(e.ops) != 1:
				raise Unsupported('comparison chain')
			left = self.expr(e.left, env)
			right = self.expr(e.comparators[0], env)
			if isinstance(left, Sym) or isinstance(right, Sym):
				raise Unsupported('comparison of symbolic values')
			op = e.ops[0]
			if isinstance(op, ast.Eq):
				return left == right
			if isinstance(op, ast.NotEq):
				return left != right
			if isinstance(op, ast.Lt):
				return left < right
			if isinstance(op, ast.In):
				return left in right
			if isinstance(op, ast.NotIn):
				return left not in right
			raise Unsupported('comparison operator')
		if isinstance(e, ast.IfExp):
			return self.expr(e.body, env) if self.truth(self.expr(e.test, env)) else self.expr(e.orelse, env)
		if isinstance(e, ast.Call):
			return self.call(e, env)
		raise Unsupported(f'expression {type(e).__name__}')

	def call(self, e: ast.Call, env):
		if e.keywords:
			raise Unsupported('keyword arguments')
		if isinstance(e.func, ast.Name) and e.func.id == 'isinstance':
			if len(e.args) != 2 or not isinstance(e.args[1], ast.Name) or e.args[1].id not in ('int', 'float', 'str'):
				raise Unsupported('isinstance form')
			args = [self.expr(e.args[0], env)]
		else:
			args = [self.expr(a, env) for a in e.args]
		if isinstance(e.func, ast.Name):
			f = e.func.id
			if f == 'isinstance':
				t = e.args[1].id
				v = args[0]
				if isinstance(v, Sym):
					return v.kind == t
				return isinstance(v, {'int': int, 'float': float, 'str': str}[t])
			if f == 'len' and isinstance(args[0], list):
				return len(args[0])
			if f == 'str' and isinstance(args[0], str):
				return args[0]
			if f == 'float' and isinstance(args[0], Sym):
				return args[0] if args[0].kind == 'float' else Sym('float', ('to_float', args[0].term))
			if f == 'int' and isinstance(args[0], Sym):
				return args[0] if args[0].kind == 'int' else Sym('int', ('to_int', args[0].term))
			raise Unsupported(f'call of {f}')
		target = self.expr(e.func, env)
		if isinstance(target, tuple) and target[0] == '<method>':
			return self.call_method(target[1], args)
		raise Unsupported('call target')


def specialise(cls, left_kind: str, op: str, right_kind: str):
	"""-> Sym of the value `_op_bin_each(node, [a, op, b])` computes, or raises Refused / Unsupported"""
	it = Interp(cls)
	return it.call_method('_op_bin_each', ['<node>', [Sym(left_kind, ('var', 'a')), op, Sym(right_kind, ('var', 'b'))]])


def python_semantics(left_kind: str, op: str, right_kind: str):
	"""what CPython computes for `a op b` with operands of these types (the oracle term)"""
	it = Interp(object)
	opcls = {v: k for k, v in ARITH.items()}[{'+': 'add', '-': 'sub', '*': 'mul', '%': 'mod', '/': 'div', '|': 'or', '^': 'xor', '&': 'and', '<<': 'shl', '>>': 'shr'}[op]]
	return it.binop(opcls, Sym(left_kind, ('var', 'a')), Sym(right_kind, ('var', 'b')))
