"""C17-K2 (engine E3): direct SMT queries about the arithmetic the *current source* of LiteralEvaluator performs.

For each type triple the specialiser (smt/specialise.py) extracts from the AST of `_op_bin_each/_calc/_bitwise` the
expression the evaluator computes; CPython's semantics for the same operands is the oracle term. Both are emitted as
QF_BVFP: integer operands are signed 64-bit vectors, integer arithmetic is done in 192 bits (no wrap for one operation),
floats are binary64, int/int true division is the correctly rounded quotient obtained through binary128
(113 >= 2*53+2, so rounding the binary128 quotient to binary64 equals rounding the exact quotient once).
Query: exists operands with impl != oracle. unsat -> discharged; sat -> replayed on the real evaluator under CPython.
"""
from __future__ import annotations

import time

from smt.specialise import Refused, Sym, Unsupported, python_semantics, specialise

W = 192


def bv(term) -> str:
	tag = term[0]
	if tag == 'var':
		return f'((_ sign_extend {W - 64}) {term[1]})'
	ops = {'iadd': 'bvadd', 'isub': 'bvsub', 'imul': 'bvmul', 'imod': 'bvsmod', 'ior': 'bvor', 'ixor': 'bvxor', 'iand': 'bvand', 'ishl': 'bvshl', 'ishr': 'bvashr'}
	if tag in ops:
		return f'({ops[tag]} {bv(term[1])} {bv(term[2])})'
	if tag == 'to_int':
		return f'((_ fp.to_sbv {W}) RTZ {fp(term[1])})'
	raise Unsupported(f'integer term {tag}')


def fp(term) -> str:
	tag = term[0]
	if tag == 'var':
		return term[1]
	if tag == 'to_float':
		return f'((_ to_fp 11 53) RNE {bv(term[1])})'
	ops = {'fadd': 'fp.add', 'fsub': 'fp.sub', 'fmul': 'fp.mul', 'fdiv': 'fp.div'}
	if tag in ops:
		return f'({ops[tag]} RNE {fp(term[1])} {fp(term[2])})'
	if tag == 'int_truediv':
		if term[1][0] != 'var' or term[2][0] != 'var':
			raise Unsupported('true division of composite integers')
		return f'((_ to_fp 11 53) RNE (fp.div RNE ((_ to_fp 15 113) RNE {term[1][1]}) ((_ to_fp 15 113) RNE {term[2][1]})))'
	raise Unsupported(f'float term {tag}')


def uses(term, tag: str) -> bool:
	return isinstance(term, tuple) and (term[0] == tag or any(uses(t, tag) for t in term[1:]))


def query(impl: Sym, oracle: Sym, kinds: tuple, op: str) -> str:
	lines = ['(set-logic QF_BVFP)']
	for name, kind in zip('ab', kinds):
		if kind == 'int':
			lines.append(f'(declare-const {name} (_ BitVec 64))')
		else:
			lines.append(f'(declare-const {name} (_ FloatingPoint 11 53))')
			lines.append(f'(assert (not (fp.isNaN {name})))')
			lines.append(f'(assert (not (fp.isInfinite {name})))')
	if op in ('/', '%'):
		lines.append('(assert (not (= b #x0000000000000000)))' if kinds[1] == 'int' else '(assert (not (fp.isZero b)))')
	if op in ('<<', '>>'):
		lines.append('(assert (bvsle #x0000000000000000 b))')
		lines.append('(assert (bvsle b #x0000000000000040))')
	enc = bv if impl.kind == 'int' else fp
	lines.append(f'(assert (not (= {enc(impl.term)} {enc(oracle.term)})))')
	lines.append('(check-sat)')
	lines.append('(get-value (a b))')
	return '\n'.join(lines) + '\n'


def run_cvc5(text: str, timeout_s: float):
	import cvc5
	slv = cvc5.Solver()
	slv.setOption('fp-exp', 'true')
	slv.setOption('produce-models', 'true')
	slv.setOption('tlimit-per', str(int(timeout_s * 1000)))
	sm = cvc5.SymbolManager(slv.getTermManager()) if hasattr(slv, 'getTermManager') else cvc5.SymbolManager(slv)
	p = cvc5.InputParser(slv, sm)
	p.setStringInput(cvc5.InputLanguage.SMT_LIB_2_6, text, 'k2')
	out = []
	while True:
		cmd = p.nextCommand()
		if cmd.isNull():
			break
		try:
			r = cmd.invoke(slv, sm)
		except Exception as e:  # noqa: BLE001
			r = f'(error "{e}")'
		if r.strip():
			out.append(r.strip())
	return out


def run_z3(text: str, timeout_s: float):
	import z3
	s = z3.Solver()
	s.set('timeout', int(timeout_s * 1000))
	body = text.replace('(check-sat)\n', '').replace('(get-value (a b))\n', '')
	try:
		s.from_string(body)
	except z3.Z3Exception as e:
		return [f'(error "{e}")']
	r = s.check()
	out = [str(r)]
	if str(r) == 'sat':
		m = s.model()
		out.append(' '.join(f'({d.name()} {m[d].sexpr()})' for d in m.decls()))
	return out


def parse_model(kinds: tuple, model_line: str) -> dict | None:
	"""'((a #b1011..) (b #x..))' or z3 sexprs -> python values"""
	import re
	import struct
	vals = {}
	for name, kind in zip('ab', kinds):
		m = re.search(r'\(' + name + r' (#b[01]+|#x[0-9a-fA-F]+|\(fp #b[01]+ #b[01]+ #b[01]+\))', model_line)
		if not m:
			return None
		lit = m.group(1)
		if lit.startswith('(fp'):
			bits = ''.join(re.findall(r'#b([01]+)', lit))
			vals[name] = struct.unpack('>d', int(bits, 2).to_bytes(8, 'big'))[0]
		else:
			u = int(lit[2:], 2 if lit[1] == 'b' else 16)
			if kind == 'int':
				vals[name] = u - (1 << 64) if u >= 1 << 63 else u
			else:
				vals[name] = struct.unpack('>d', u.to_bytes(8, 'big'))[0]
	return vals


PY_OPS = {'+': lambda a, b: a + b, '-': lambda a, b: a - b, '*': lambda a, b: a * b, '/': lambda a, b: a / b, '%': lambda a, b: a % b,
	'|': lambda a, b: a | b, '^': lambda a, b: a ^ b, '&': lambda a, b: a & b, '<<': lambda a, b: a << b, '>>': lambda a, b: a >> b}


def replay_real(a, op: str, b) -> tuple:
	"""the real evaluator vs CPython on concrete operands -> (differs, description)"""
	from rogw.tranp.implements.transpiler.evaluator import LiteralEvaluator
	ev = LiteralEvaluator.__new__(LiteralEvaluator)
	want = PY_OPS[op](a, b)
	try:
		got = ev._op_bin_each(None, [a, op, b])  # type: ignore
	except Exception as e:  # noqa: BLE001
		return False, f'evaluator refuses ({type(e).__name__})'
	same = type(got) is type(want) and (got == want or (got != got and want != want))
	return (not same), f'{a!r} {op} {b!r}: evaluator {got!r} ({type(got).__name__}), CPython {want!r} ({type(want).__name__})'


SHAPES = [('int', '/', 'int'), ('int', '+', 'int'), ('int', '-', 'int'), ('int', '*', 'int'), ('int', '%', 'int'), ('int', '|', 'int'), ('int', '^', 'int'), ('int', '&', 'int'),
	('int', '<<', 'int'), ('int', '>>', 'int'),
	('int', '+', 'float'), ('int', '-', 'float'), ('int', '*', 'float'), ('int', '/', 'float'), ('float', '+', 'int'), ('float', '-', 'int'), ('float', '*', 'int'), ('float', '/', 'int'),
	('float', '+', 'float'), ('float', '*', 'float'), ('float', '/', 'float')]


def decide(text: str, timeout_s: float) -> tuple:
	"""-> (verdict, model_line, per-solver outcome, seconds). verdict in sat / unsat / unknown / conflict"""
	outs = {}
	t0 = time.time()
	for name, fn in (('cvc5-1.4', run_cvc5), ('z3-5.1', run_z3)):
		try:
			outs[name] = fn(text, timeout_s)
		except Exception as e:  # noqa: BLE001
			outs[name] = [f'(error "{type(e).__name__}: {e}")']
	heads = {k: (v[0] if v else 'unknown') for k, v in outs.items()}
	for k, v in outs.items():
		if any(line.startswith('(error') for line in v):
			heads[k] = 'unknown'
	verdicts = set(heads.values())
	model = ''
	if 'sat' in verdicts and 'unsat' in verdicts:
		return 'conflict', '', heads, time.time() - t0
	if 'sat' in verdicts:
		for k, v in outs.items():
			if heads[k] == 'sat' and len(v) > 1:
				model = v[1]
		return 'sat', model, heads, time.time() - t0
	if 'unsat' in verdicts:
		return 'unsat', '', heads, time.time() - t0
	return 'unknown', '', heads, time.time() - t0


def run(rep, tier: str) -> None:
	from vlib import prelude  # noqa: F401  (sys.path / cwd for the real import)
	from rogw.tranp.implements.transpiler.evaluator import LiteralEvaluator
	timeout = 900.0 if tier == 'thorough' else 120.0
	rep.functions += ['LiteralEvaluator._op_bin_each/_calc/_bitwise (AST specialised per operand-type triple, smt/specialise.py)']
	# encoder validation: the encoding must be able to see the float-image division defect (sat + reproduces under CPython)
	pre_fix = Sym('float', ('fdiv', ('to_float', ('var', 'a')), ('to_float', ('var', 'b'))))
	text = query(pre_fix, python_semantics('int', '/', 'int'), ('int', 'int'), '/')
	verdict, model, heads, secs = decide(text, timeout)
	vals = parse_model(('int', 'int'), model) if verdict == 'sat' else None
	if vals and float(vals['a']) / float(vals['b']) != vals['a'] / vals['b']:
		rep.add_direct('K2.encoder-validation', 'C', 'float(a)/float(b) vs a/b over signed 64-bit operands must be sat and reproduce', 'confirmed', cpu_s=secs,
			sample={'obligation': 'K2.encoder-validation', 'query': 'float(a)/float(b) != a/b', 'solvers': heads, 'model': vals, 'cpython': [float(vals['a']) / float(vals['b']), vals['a'] / vals['b']]})
	else:
		rep.add_direct('K2.encoder-validation', 'C', 'float(a)/float(b) vs a/b', 'inconclusive', f'solvers {heads}: the encoding could not exhibit the known rounding difference within {timeout:.0f}s', cpu_s=secs)
	for lk, op, rk in SHAPES:
		name = f'K2.{lk}{op}{rk}'
		bound = f'operands: signed 64-bit ints / finite binary64 floats; shifts 0..64; divisor non-zero'
		try:
			impl = specialise(LiteralEvaluator, lk, op, rk)
		except Refused:
			rep.add_direct(name, 'S', bound, 'confirmed', sample={'obligation': name, 'specialised': 'refused (OperationNotAllowed)'}, queries=0)
			continue
		except Unsupported as e:
			rep.add_direct(name, 'S', bound, 'inconclusive', f'specialiser does not understand the current source: {e}')
			continue
		try:
			oracle = python_semantics(lk, op, rk)
		except Refused:
			# CPython raises TypeError for these operand types: any value the evaluator returns would be "a different value"; a refusal is fine
			rep.add_direct(name, 'S', bound, 'inconclusive', 'CPython rejects the operand types but the evaluator computes a value')
			continue
		if not isinstance(impl, Sym):
			rep.add_direct(name, 'S', bound, 'inconclusive', f'specialised result is not arithmetic: {impl!r}')
			continue
		if impl.kind == oracle.kind and impl.term == oracle.term:
			rep.add_direct(name, 'S', bound, 'confirmed', sample={'obligation': name, 'specialised': repr(impl.term), 'verdict': 'identical to the CPython term (no query needed)'}, queries=0)
			continue
		if impl.kind != oracle.kind:
			# result type differs for every input: pick any operands and replay
			a, b = (7 if lk == 'int' else 7.5), (2 if rk == 'int' else 2.5)
			differs, what = replay_real(a, op, b)
			if differs:
				rep.violation(name, f'result type differs from CPython: {what}', {'property': 'C17', 'obligation': name, 'kind': 'k2', 'a': a, 'op': op, 'b': b})
				rep.add_direct(name, 'S', bound, 'refuted')
			else:
				rep.add_direct(name, 'S', bound, 'inconclusive', f'types differ symbolically ({impl.kind} vs {oracle.kind}) but the replay agrees: {what}')
			continue
		try:
			text = query(impl, oracle, (lk, rk), op)
		except Unsupported as e:
			rep.add_direct(name, 'S', bound, 'inconclusive', f'term not encodable: {e} (impl {impl.term})')
			continue
		verdict, model, heads, secs = decide(text, timeout)
		sample = {'obligation': name, 'specialised': repr(impl.term), 'oracle': repr(oracle.term), 'solvers': heads, 'seconds': round(secs, 1)}
		if verdict == 'unsat':
			rep.add_direct(name, 'S', bound, 'confirmed', cpu_s=secs, sample=sample)
		elif verdict == 'sat':
			vals = parse_model((lk, rk), model)
			if vals is None:
				rep.error(f'{name}: sat but the model could not be read: {model!r}')
				continue
			differs, what = replay_real(vals['a'], op, vals['b'])
			if differs:
				rep.violation(name, what, {'property': 'C17', 'obligation': name, 'kind': 'k2', 'a': vals['a'], 'op': op, 'b': vals['b']})
				rep.add_direct(name, 'S', bound, 'refuted', cpu_s=secs, sample=sample)
			else:
				rep.error(f'{name}: solver model {vals} does not reproduce on the real evaluator ({what}) -> encoding problem, not reported as a violation')
		elif verdict == 'conflict':
			rep.error(f'{name}: solvers disagree {heads}')
		else:
			rep.add_direct(name, 'S', bound, 'inconclusive', f'solvers {heads} after {secs:.0f}s (impl {impl.term})', cpu_s=secs)


def replay_file(w: dict) -> int:
	differs, what = replay_real(w['a'], w['op'], w['b'])
	print(what)
	return 1 if differs else 0
